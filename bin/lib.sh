# shared by bin/check, bin/setup, bin/selftest
export GOFLAGS=-mod=mod GOPROXY=off GOSUMDB=off GOTOOLCHAIN=local
export CGO_ENABLED=1
REPO=${VERIF_REPO:-/repo}
ENGINE=/verif/engine

# modfile copies so that neither /repo/go.mod nor engine/go.mod is ever rewritten
prep_modfiles() {
  cp $ENGINE/go.mod "$W/engine.mod"; cp $ENGINE/go.sum "$W/engine.sum"
  if [ "$REPO" != /repo ]; then sed -i "s#=> /repo#=> $REPO#" "$W/engine.mod"; fi
  cp $REPO/go.mod "$W/repo.mod"; cat $REPO/go.sum $ENGINE/go.sum | sort -u > "$W/repo.sum"
}

# build_plain <cmd> [overlay.json] : engine binary against the un-instrumented /repo
build_plain() {
  prep_modfiles
  local ov=()
  if [ -n "${2:-}" ]; then ov=(-overlay "$2"); fi
  (cd $ENGINE && go build -modfile="$W/engine.mod" "${ov[@]}" -tags verif -o "$W/$1" ./cmd/$1) || { echo "HARNESS-ERROR: build of $1 failed" >&2; exit 2; }
}

# overlay that adds the verif-tagged driver stub to package main of $REPO
main_overlay() {
  cat > "$W/main-overlay.json" <<EOT
{"Replace": {"$REPO/zz_verif_spatialite.go": "$ENGINE/overlay/zz_verif_spatialite.go.src",
             "$REPO/zz_verif_validate_test.go": "$ENGINE/overlay/zz_verif_validate_test.go.src"}}
EOT
}

# build_texel : the real CLI binary from $REPO's working tree + driver stub
build_texel() {
  prep_modfiles; main_overlay
  (cd $REPO && go build -modfile="$W/repo.mod" -overlay "$W/main-overlay.json" -tags verif -o "$W/texel" .) || { echo "HARNESS-ERROR: build of texel failed" >&2; exit 2; }
  export VERIF_TEXEL_BIN="$W/texel"
}

# run_main_test <TestName> : overlay-added in-package test of package main
run_main_test() {
  prep_modfiles; main_overlay
  (cd $REPO && go test -modfile="$W/repo.mod" -overlay "$W/main-overlay.json" -tags verif -vet=off -count=1 -run "^$1\$" . > "$W/main-test.log" 2>&1) || { cat "$W/main-test.log" >&2; echo "HARNESS-ERROR: in-package test $1 failed" >&2; exit 2; }
}
