# shared by bin/check, bin/setup, bin/selftest
export GOFLAGS=-mod=mod GOPROXY=off GOSUMDB=off GOTOOLCHAIN=local
export CGO_ENABLED=1
REPO=${VERIF_REPO:-/repo}
ENGINE=/verif/engine

# modfile copies so that neither /repo/go.mod nor engine/go.mod is ever rewritten
prep_modfiles() {
  cp $ENGINE/go.mod "$W/engine.mod"; cp $ENGINE/go.sum "$W/engine.sum"
  if [ "$REPO" != /repo ]; then sed -i "s#=> /repo#=> $REPO#" "$W/engine.mod"; fi
  cp $REPO/go.mod "$W/repo.mod"; cat $REPO/go.sum $ENGINE/go.sum | sort -u > "$W/repo.sum"
}

# build_plain <cmd> [overlay.json] : engine binary against the un-instrumented /repo
build_plain() {
  prep_modfiles
  local ov=()
  if [ -n "${2:-}" ]; then ov=(-overlay "$2"); fi
  (cd $ENGINE && go build -modfile="$W/engine.mod" "${ov[@]}" -tags verif -o "$W/$1" ./cmd/$1) || { echo "HARNESS-ERROR: build of $1 failed" >&2; exit 2; }
}
