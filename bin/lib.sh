# shared by bin/check, bin/setup, bin/selftest
export GOFLAGS=-mod=mod GOPROXY=off GOSUMDB=off GOTOOLCHAIN=local
export CGO_ENABLED=1
REPO=${VERIF_REPO:-/repo}
ENGINE=/verif/engine

# modfile copies so that neither /repo/go.mod nor engine/go.mod is ever rewritten
prep_modfiles() {
  cp $ENGINE/go.mod "$W/engine.mod"; cp $ENGINE/go.sum "$W/engine.sum"
  if [ "$REPO" != /repo ]; then sed -i "s#=> /repo#=> $REPO#" "$W/engine.mod"; fi
  cp $REPO/go.mod "$W/repo.mod"; cat $REPO/go.sum $ENGINE/go.sum | sort -u > "$W/repo.sum"
}

# build_plain <cmd> [overlay.json] : engine binary against the un-instrumented /repo
build_plain() {
  prep_modfiles
  local ov=()
  if [ -n "${2:-}" ]; then ov=(-overlay "$2"); fi
  (cd $ENGINE && go build -modfile="$W/engine.mod" "${ov[@]}" -tags verif -o "$W/$1" ./cmd/$1) || { echo "HARNESS-ERROR: build of $1 failed" >&2; exit 2; }
}

# overlay that adds the verif-tagged driver stub to package main of $REPO
main_overlay() {
  cat > "$W/main-overlay.json" <<EOT
{"Replace": {"$REPO/zz_verif_spatialite.go": "$ENGINE/overlay/zz_verif_spatialite.go.src",
             "$REPO/zz_verif_validate_test.go": "$ENGINE/overlay/zz_verif_validate_test.go.src"}}
EOT
}

# build_texel : the real CLI binary from $REPO's working tree + driver stub
build_texel() {
  prep_modfiles; main_overlay
  (cd $REPO && go build -modfile="$W/repo.mod" -overlay "$W/main-overlay.json" -tags verif -o "$W/texel" .) || { echo "HARNESS-ERROR: build of texel failed" >&2; exit 2; }
  export VERIF_TEXEL_BIN="$W/texel"
}

# run_main_test <TestName> : overlay-added in-package test of package main
run_main_test() {
  prep_modfiles; main_overlay
  (cd $REPO && go test -modfile="$W/repo.mod" -overlay "$W/main-overlay.json" -tags verif -vet=off -count=1 -run "^$1\$" . > "$W/main-test.log" 2>&1) || { cat "$W/main-test.log" >&2; echo "HARNESS-ERROR: in-package test $1 failed" >&2; exit 2; }
}

# build_instr_tool : the AST instrumenter (own module, needs golang.org/x/tools from the module cache)
build_instr_tool() {
  (cd /verif/instr && go build -o "$W/instr" .) || { echo "HARNESS-ERROR: build of the instrumenter failed" >&2; exit 2; }
}

# instr_overlay <name> [-tick] pkgs... : instrument the CURRENT sources of the packages, write $W/<name>-overlay.json
instr_overlay() {
  local name=$1; shift
  local tick=""
  if [ "$1" = "-tick" ]; then tick="-tick"; shift; fi
  prep_modfiles
  [ -x "$W/instr" ] || build_instr_tool
  mkdir -p "$W/$name"
  "$W/instr" $tick -repo "$REPO" -modfile "$W/repo.mod" -out "$W/$name" "$@" > "$W/$name/map.txt" || { echo "HARNESS-ERROR: instrumenting failed (construct the instrumenter does not understand?)" >&2; exit 2; }
  python3 - "$W/$name/map.txt" "$REPO" "$ENGINE" > "$W/$name-overlay.json" <<'PY'
import sys, json
rep = {}
for l in open(sys.argv[1]):
    a, b = l.rstrip("\n").split("\t")
    rep[a] = b
repo, eng = sys.argv[2], sys.argv[3]
rep[repo + "/zzverif/vsrt/vsrt.go"] = eng + "/overlay/vsrt.go.src"
rep[repo + "/zzverif/vsync/vsync.go"] = eng + "/overlay/vsync.go.src"
print(json.dumps({"Replace": rep}))
PY
}

# build_instr <cmd> <overlay> <out-name> : engine binary against the instrumented sources
build_instr() {
  (cd $ENGINE && go build -modfile="$W/engine.mod" -overlay "$2" -tags "verif instr" -o "$W/$3" ./cmd/$1) || { echo "HARNESS-ERROR: instrumented build of $1 failed" >&2; exit 2; }
}

# race_pass : the C11 harness bodies free running under the race detector against the
# UN-instrumented processing package (overlay holds only the virtual runtime packages)
race_pass() {
  cat > "$W/rt-overlay.json" <<EOT
{"Replace": {"$REPO/zzverif/vsrt/vsrt.go": "$ENGINE/overlay/vsrt.go.src", "$REPO/zzverif/vsync/vsync.go": "$ENGINE/overlay/vsync.go.src"}}
EOT
  (cd $ENGINE && go build -race -modfile="$W/engine.mod" -overlay "$W/rt-overlay.json" -tags "verif instr" -o "$W/pipemc-race" ./cmd/pipemc) || { echo "HARNESS-ERROR: -race build failed" >&2; exit 2; }
  export VERIF_RACE_RESULT="$W/race.json"
  GORACE="halt_on_error=0 exitcode=66" "$W/pipemc-race" race 2> "$W/race.log"
  local rc=$?
  if grep -q "WARNING: DATA RACE" "$W/race.log"; then
    mkdir -p /verif/replays/C11; cp "$W/race.log" /verif/replays/C11/$VERIF_TIER-race.log
    python3 - "$W/race.json" /verif/replays/C11/$VERIF_TIER-race.log <<'PY'
import json, sys
try: d = json.load(open(sys.argv[1]))
except Exception: d = {"runs": 0, "outcomes_matching_reference": 0}
n = open(sys.argv[2]).read().count("WARNING: DATA RACE")
d.update({"class": "data-race", "violations": (d.get("violations") or 0) + 1, "messages": ["race detector reported %d data race(s); report: %s" % (n, sys.argv[2])] + (d.get("messages") or [])[:3]})
json.dump(d, open(sys.argv[1], "w"))
PY
  elif [ $rc -ne 0 ] && python3 - "$W/race.log" <<'PY'
# a panic raised inside texel's own code (first frame of the panicking goroutine is in the
# repository, not in the harness or the injected runtime) in a goroutine nobody can recover from
import re, sys
t = open(sys.argv[1]).read()
m = re.search(r"^(panic:|fatal error:).*?\n\ngoroutine \d+ \[running\]:\n((?:.+\n)+)", t, re.M | re.S)
if not m: sys.exit(1)
frames = [l for l in m.group(2).split("\n") if l and not l.startswith("\t")]
frames = [f for f in frames if not f.startswith(("panic(", "runtime.", "created by"))]
sys.exit(0 if frames and frames[0].startswith("github.com/pdok/texel/") and "/zzverif/" not in frames[0] else 1)
PY
  then
    mkdir -p /verif/replays/C11; cp "$W/race.log" /verif/replays/C11/$VERIF_TIER-crash.log
    python3 - "$W/race.json" /verif/replays/C11/$VERIF_TIER-crash.log <<'PY'
import json, sys
try: d = json.load(open(sys.argv[1]))
except Exception: d = {"runs": 0, "outcomes_matching_reference": 0}
head = [l for l in open(sys.argv[2]).read().split("\n") if l.startswith(("panic:", "fatal error:"))][:1]
d.update({"class": "crash", "violations": (d.get("violations") or 0) + 1, "messages": ["the free-running pipeline crashed in texel code: %s; report: %s" % (" ".join(head), sys.argv[2])] + (d.get("messages") or [])[:3]})
json.dump(d, open(sys.argv[1], "w"))
PY
  elif [ $rc -ne 0 ]; then
    cat "$W/race.log" >&2; echo "HARNESS-ERROR: free-running pass crashed (exit $rc)" >&2; exit 2
  fi
  tail -1 "$W/race.log" >&2
}

# free_pass : every C10 scenario on the UN-instrumented processing package, free running (conformance of the instrumentation)
free_pass() {
  cat > "$W/rt-overlay.json" <<EOT
{"Replace": {"$REPO/zzverif/vsrt/vsrt.go": "$ENGINE/overlay/vsrt.go.src", "$REPO/zzverif/vsync/vsync.go": "$ENGINE/overlay/vsync.go.src"}}
EOT
  (cd $ENGINE && go build -modfile="$W/engine.mod" -overlay "$W/rt-overlay.json" -tags "verif instr" -o "$W/pipemc-free" ./cmd/pipemc) || { echo "HARNESS-ERROR: un-instrumented build of pipemc failed" >&2; exit 2; }
  export VERIF_FREE_RESULT="$W/free.json"
  "$W/pipemc-free" free 2> "$W/free.log"
  local rc=$?
  if [ $rc -ne 0 ]; then cat "$W/free.log" >&2; echo "HARNESS-ERROR: free-running conformance pass crashed (exit $rc)" >&2; exit 2; fi
  tail -1 "$W/free.log" >&2
}
