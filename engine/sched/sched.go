//go:build instr

// Package sched is the controlled scheduler behind the vsrt hooks: every
// channel operation, close, WaitGroup operation, go statement, explicit yield
// and map-iteration order of the instrumented code is a scheduling / choice
// point.  One goroutine runs at a time; the scheduler keeps a model of each
// channel and wait group only to decide which parked operations are enabled.
// Run re-executes a body following a prefix of choices and then always takes
// alternative 0 (stateless exploration by re-execution).
package sched

import (
	"fmt"
	"hash/fnv"
	"reflect"
	"runtime"
	"sort"
	"sync"
	"time"

	"github.com/pdok/texel/zzverif/vsrt"
)

type selCase struct {
	send bool
	obj  uintptr
}

type op struct {
	kind       vsrt.Kind
	obj        uintptr // channel / waitgroup identity
	n          int     // wg delta, or number of alternatives of a choice
	tag        string
	sel        []selCase // select statement: its communication clauses
	hasDefault bool
}

type G struct {
	ID      int
	Name    string
	wake    chan int
	pending op
	parked  bool
	Done    bool
	hist    uint64
	nops    int
	spawned int
	resume  bool // received in a rendezvous: parks again in Post before it continues
}

type chanModel struct {
	id     int
	closed bool
	cap    int
	len    int
	keep   interface{} // the channel itself: models are keyed by address, which must not be reused within an execution
}

type wgModel struct {
	keep    interface{} // the object itself (see chanModel.keep)
	id      int
	cnt     int // WaitGroup counter; for a mutex: 1 while held exclusively
	readers int // RWMutex: number of shared holders
}

// SpinTag marks the scheduling point the instrumenter puts into the body of a loop that polls an
// atomic: the goroutine says "I am waiting".  Such a transition is ordered after all others and
// switching away from it is free (fair scheduling: a spinner must not starve the goroutine it waits
// for); a state that repeats while only spinners can move is a livelock.
const SpinTag = "spin"

// timerModel: a virtual timer channel (vsrt.NewTicker / NewTimer): the scheduler decides when it fires
type timerModel struct {
	ch       chan time.Time
	periodic bool
	stopped  bool
	fired    bool
}

// MaxTimerFires bounds how often virtual timers fire in one execution (a ticker in a loop would otherwise make the
// execution space infinite); beyond it time stands still.
const MaxTimerFires = 4

type transition struct {
	timer uintptr // != 0: the environment event "this timer fires now", received by goroutine a
	spin bool
	a, b int  // goroutine ids; b = -1 if single
	alt  int  // value handed to a when it is woken (choice alternative / select case; -1 = default)
	altB int  // value handed to b
	dev  bool // a non-default alternative of the same goroutine (map order)
	desc string
	cost int
}

// Point is one scheduling point of an execution.
type Point struct {
	Costs []int // deviation cost of each alternative (alternative 0 is the default)
	Descs []string
	Key   uint64 // canonical state key before the choice
}

type Exec struct {
	mu      sync.Mutex
	gs      []*G
	byGo    map[int64]*G
	chans   map[uintptr]*chanModel
	wgs     map[uintptr]*wgModel
	timers  map[uintptr]*timerModel
	fires   int
	running int
	quiet   chan struct{}
	Trace   []string
	Choices []int
	Points  []Point
	// Err: a panic inside instrumented code or a deadlock / leak (a property-level event)
	Err string
	// Harness: the scheduler itself could not proceed (model and runtime disagree)
	Harness string
	lastRun int
	// Marks are yields with a tag, in the order they fired (harness observation points)
	Marks []string
	// OnMark is called (on the scheduler's goroutine) when a tagged yield fires
	OnMark   func(x *Exec, tag string, g *G)
	aborting bool
}

type abortExec struct{}

const abortSignal = -1 << 30

var cur *Exec

// Strict: every non-default alternative counts as one deviation (also switches that
// are not preemptions); used where inputs, not schedules, are the quantifier.
var Strict bool

func goid() int64 {
	var buf [64]byte
	n := runtime.Stack(buf[:], false)
	var id int64
	for _, c := range buf[len("goroutine "):n] {
		if c < '0' || c > '9' {
			break
		}
		id = id*10 + int64(c-'0')
	}
	return id
}

func (x *Exec) me() *G {
	x.mu.Lock()
	defer x.mu.Unlock()
	g := x.byGo[goid()]
	if g == nil {
		panic("sched: unmanaged goroutine reached a scheduling point")
	}
	return g
}

func mix(h uint64, vals ...uint64) uint64 {
	f := fnv.New64a()
	var b [8]byte
	put := func(v uint64) {
		for i := 0; i < 8; i++ {
			b[i] = byte(v >> (8 * i))
		}
		f.Write(b[:])
	}
	put(h)
	for _, v := range vals {
		put(v)
	}
	return f.Sum64()
}

func strHash(s string) uint64 {
	f := fnv.New64a()
	f.Write([]byte(s))
	return f.Sum64()
}

func (x *Exec) chanOf(c interface{}) *chanModel {
	v := reflect.ValueOf(c)
	p := v.Pointer()
	m := x.chans[p]
	if m == nil {
		m = &chanModel{id: len(x.chans), cap: v.Cap(), keep: c}
		x.chans[p] = m
	}
	return m
}

func (x *Exec) wgOf(p uintptr) *wgModel {
	m := x.wgs[p]
	if m == nil {
		m = &wgModel{id: len(x.wgs)}
		x.wgs[p] = m
	}
	return m
}

func (x *Exec) signalQuietLocked() {
	if x.running == 0 {
		select {
		case x.quiet <- struct{}{}:
		default:
		}
	}
}

func (x *Exec) park(g *G, o op) int {
	x.mu.Lock()
	if x.aborting {
		x.mu.Unlock()
		if o.kind == vsrt.KStart {
			panic(abortExec{})
		}
		return 0 // unwinding after an abort: deferred operations pass through
	}
	if o.kind != vsrt.KResume {
		g.resume = false
	}
	g.pending = o
	g.parked = true
	x.running--
	x.signalQuietLocked()
	x.mu.Unlock()
	v := <-g.wake
	if v == abortSignal {
		panic(abortExec{})
	}
	return v
}

func preHook(kind vsrt.Kind, obj interface{}, n int) {
	x := cur
	g := x.me()
	o := op{kind: kind, n: n}
	switch kind {
	case vsrt.KSend, vsrt.KRecv, vsrt.KClose:
		x.mu.Lock()
		o.obj = reflect.ValueOf(obj).Pointer()
		x.chanOf(obj)
		x.mu.Unlock()
	case vsrt.KWgAdd, vsrt.KWgWait, vsrt.KLock, vsrt.KUnlock:
		o.obj = reflect.ValueOf(obj).Pointer()
		x.mu.Lock()
		x.wgOf(o.obj).keep = obj
		x.mu.Unlock()
	case vsrt.KYield:
		o.tag, _ = obj.(string)
	}
	x.park(g, o)
}

// timerHook registers / stops / re-arms a virtual timer
func timerHook(c chan time.Time, op string) {
	x := cur
	x.mu.Lock()
	defer x.mu.Unlock()
	p := reflect.ValueOf(c).Pointer()
	switch op {
	case "ticker", "timer":
		x.timers[p] = &timerModel{ch: c, periodic: op == "ticker"}
		x.chanOf(c)
	case "stop":
		if t := x.timers[p]; t != nil {
			t.stopped = true
		}
	case "reset":
		if t := x.timers[p]; t != nil {
			t.stopped, t.fired = false, false
		}
	}
}

// canFire: the timer behind channel obj may fire now
func (x *Exec) canFire(obj uintptr) bool {
	t := x.timers[obj]
	return t != nil && !t.stopped && (t.periodic || !t.fired) && x.fires < MaxTimerFires && x.chans[obj].len == 0
}

// postHook: the receiving side of a rendezvous parks again right after the real receive
func postHook() {
	x := cur
	g := x.me()
	x.mu.Lock()
	r := g.resume
	g.resume = false
	x.mu.Unlock()
	if r {
		x.park(g, op{kind: vsrt.KResume})
	}
}

// Yield is an explicit scheduling point of harness code (fake source/targets).
func Yield(tag string) {
	if vsrt.PreHook == nil {
		runtime.Gosched() // free-running mode
		return
	}
	preHook(vsrt.KYield, tag, 0)
}

var permCache = map[int][][]int{}

func perms(n int) [][]int {
	if p, ok := permCache[n]; ok {
		return p
	}
	var out [][]int
	if n <= 4 {
		var rec func(c []int, used []bool)
		rec = func(c []int, used []bool) {
			if len(c) == n {
				out = append(out, append([]int{}, c...))
				return
			}
			for i := 0; i < n; i++ {
				if !used[i] {
					used[i] = true
					rec(append(c, i), used)
					used[i] = false
				}
			}
		}
		rec(nil, make([]bool, n))
	} else {
		id := make([]int, n)
		rev := make([]int, n)
		for i := range id {
			id[i], rev[i] = i, n-1-i
		}
		out = append(out, id, rev)
		for r := 1; r < n; r++ {
			p := make([]int, n)
			for i := range p {
				p[i] = (i + r) % n
			}
			out = append(out, p)
		}
	}
	permCache[n] = out
	return out
}

func orderHook(site string, n int) []int {
	x := cur
	g := x.me()
	ps := perms(n)
	alt := x.park(g, op{kind: vsrt.KChoice, n: len(ps), tag: site})
	return ps[alt]
}

func selectHook(hasDefault bool, cases []vsrt.SelCase) int {
	x := cur
	g := x.me()
	o := op{kind: vsrt.KSelect, hasDefault: hasDefault}
	x.mu.Lock()
	for _, c := range cases {
		x.chanOf(c.Ch)
		o.sel = append(o.sel, selCase{send: c.Send, obj: reflect.ValueOf(c.Ch).Pointer()})
	}
	x.mu.Unlock()
	return x.park(g, o)
}

func goHook(name string, f func()) {
	x := cur
	parent := x.me()
	x.mu.Lock()
	g := &G{ID: len(x.gs), Name: fmt.Sprintf("%s/%d:%s", parent.Name, parent.spawned, name), wake: make(chan int, 1)}
	parent.spawned++
	x.gs = append(x.gs, g)
	x.running++
	x.mu.Unlock()
	ready := make(chan struct{})
	go x.runG(g, ready, f)
	<-ready
}

func (x *Exec) runG(g *G, ready chan struct{}, f func()) {
	x.mu.Lock()
	x.byGo[goid()] = g
	x.mu.Unlock()
	if ready != nil {
		close(ready)
	}
	defer func() {
		if r := recover(); r != nil {
			x.mu.Lock()
			if _, isAbort := r.(abortExec); !isAbort && !x.aborting && x.Err == "" {
				x.Err = fmt.Sprintf("panic in %s: %v", g.Name, r)
			}
			x.mu.Unlock()
		}
		x.mu.Lock()
		g.Done, g.parked, g.pending = true, true, op{kind: vsrt.KExit}
		x.running--
		x.signalQuietLocked()
		x.mu.Unlock()
	}()
	x.park(g, op{kind: vsrt.KStart})
	f()
}

func (x *Exec) enabled() []transition {
	var ts, timerTs []transition
	for _, g := range x.gs {
		if g.Done || !g.parked {
			continue
		}
		o := g.pending
		switch o.kind {
		case vsrt.KStart, vsrt.KWgAdd, vsrt.KClose, vsrt.KUnlock, vsrt.KResume:
			ts = append(ts, transition{a: g.ID, b: -1, desc: fmt.Sprintf("%s:%s", g.Name, vsrt.KindName[o.kind])})
		case vsrt.KLock:
			m := x.wgs[o.obj]
			if m.cnt == 0 && (o.n == 1 || m.readers == 0) {
				ts = append(ts, transition{a: g.ID, b: -1, desc: g.Name + ":lock"})
			}
		case vsrt.KYield:
			ts = append(ts, transition{a: g.ID, b: -1, spin: o.tag == SpinTag, desc: fmt.Sprintf("%s:yield(%s)", g.Name, o.tag)})
		case vsrt.KChoice:
			for j := 0; j < o.n; j++ {
				ts = append(ts, transition{a: g.ID, b: -1, alt: j, dev: j > 0, desc: fmt.Sprintf("%s:order(%s)=%d", g.Name, o.tag, j)})
			}
		case vsrt.KSelect:
			n0 := len(ts)
			for i, sc := range o.sel {
				c := x.chans[sc.obj]
				if sc.send {
					switch {
					case c.closed:
						ts = append(ts, transition{a: g.ID, b: -1, alt: i, desc: fmt.Sprintf("%s:select-send-on-closed(ch%d)", g.Name, c.id)})
					case c.len < c.cap:
						ts = append(ts, transition{a: g.ID, b: -1, alt: i, desc: fmt.Sprintf("%s:select-send-buffered(ch%d)", g.Name, c.id)})
					default:
						for _, r := range x.gs {
							if !r.Done && r.parked && r.ID != g.ID && r.pending.kind == vsrt.KRecv && r.pending.obj == sc.obj && c.len == 0 {
								ts = append(ts, transition{a: g.ID, b: r.ID, alt: i, desc: fmt.Sprintf("%s=select=>%s:ch%d", g.Name, r.Name, c.id)})
							}
						}
					}
				} else {
					if c.len > 0 || c.closed {
						ts = append(ts, transition{a: g.ID, b: -1, alt: i, desc: fmt.Sprintf("%s:select-recv(ch%d,closed=%v)", g.Name, c.id, c.closed)})
						continue
					}
					if x.canFire(sc.obj) {
						timerTs = append(timerTs, transition{a: g.ID, b: -1, alt: i, timer: sc.obj, desc: fmt.Sprintf("%s:select-timer-fires(ch%d)", g.Name, c.id)})
						continue
					}
					for _, sdr := range x.gs {
						if !sdr.Done && sdr.parked && sdr.ID != g.ID && sdr.pending.kind == vsrt.KSend && sdr.pending.obj == sc.obj && c.cap == 0 {
							ts = append(ts, transition{a: sdr.ID, b: g.ID, altB: i, desc: fmt.Sprintf("%s=>select:%s:ch%d", sdr.Name, g.Name, c.id)})
						}
					}
				}
			}
			if len(ts) == n0 && o.hasDefault { // (a timer that could fire does not make the select ready: default runs)
				ts = append(ts, transition{a: g.ID, b: -1, alt: -1, desc: g.Name + ":select-default"})
			}
		case vsrt.KWgWait:
			if x.wgs[o.obj].cnt <= 0 {
				ts = append(ts, transition{a: g.ID, b: -1, desc: g.Name + ":wgwait"})
			}
		case vsrt.KSend:
			c := x.chans[o.obj]
			if c.closed {
				ts = append(ts, transition{a: g.ID, b: -1, desc: g.Name + ":send-on-closed"})
				continue
			}
			if c.len < c.cap {
				ts = append(ts, transition{a: g.ID, b: -1, desc: g.Name + ":send-buffered"})
				continue
			}
			for _, r := range x.gs {
				if !r.Done && r.parked && r.pending.kind == vsrt.KRecv && r.pending.obj == o.obj && c.len == 0 {
					ts = append(ts, transition{a: g.ID, b: r.ID, desc: fmt.Sprintf("%s=>%s:ch%d", g.Name, r.Name, c.id)})
				}
			}
		case vsrt.KRecv:
			c := x.chans[o.obj]
			if c.len > 0 || c.closed {
				ts = append(ts, transition{a: g.ID, b: -1, desc: fmt.Sprintf("%s:recv(ch%d,closed=%v)", g.Name, c.id, c.closed)})
			} else if x.canFire(o.obj) {
				timerTs = append(timerTs, transition{a: g.ID, b: -1, timer: o.obj, desc: fmt.Sprintf("%s:timer-fires(ch%d)", g.Name, c.id)})
			}
		}
	}
	// "the timer fires now" is the environment's answer the explorer deviates to: offered after everything else
	nonTimer := len(ts)
	ts = append(ts, timerTs...)
	// canonical order: transitions of the goroutine that ran last first, then by id
	last := x.lastRun
	sort.SliceStable(ts, func(i, j int) bool {
		if (ts[i].timer != 0) != (ts[j].timer != 0) {
			return ts[i].timer == 0
		}
		if ts[i].spin != ts[j].spin {
			return !ts[i].spin
		}
		li := ts[i].a == last || ts[i].b == last
		lj := ts[j].a == last || ts[j].b == last
		if li != lj {
			return li
		}
		if ts[i].a != ts[j].a {
			return ts[i].a < ts[j].a
		}
		if ts[i].b != ts[j].b {
			return ts[i].b < ts[j].b
		}
		if ts[i].alt != ts[j].alt {
			return ts[i].alt < ts[j].alt
		}
		return ts[i].altB < ts[j].altB
	})
	// costs: switching away from a goroutine that could continue is a preemption;
	// a non-default iteration order is a deviation
	runningEnabled := false
	for _, t := range ts {
		if (t.a == last || t.b == last) && !t.spin {
			runningEnabled = true
		}
	}
	for i := range ts {
		t := &ts[i]
		involvesLast := t.a == last || t.b == last
		if runningEnabled && !involvesLast {
			t.cost = 1
		}
		if t.dev {
			t.cost = 1
			if runningEnabled && !involvesLast {
				t.cost = 2
			}
		}
		if t.timer != 0 {
			// while anything else can move, a timer landing first is a deviation; if only time can pass, it passes
			t.cost = 0
			if nonTimer > 0 {
				t.cost = 1
			}
		}
		if Strict && i > 0 && t.cost == 0 {
			t.cost = 1
		}
	}
	return ts
}

func b2i(b bool) uint64 {
	if b {
		return 1
	}
	return 0
}

func (x *Exec) key() uint64 {
	h := uint64(1469598103934665603)
	for _, g := range x.gs {
		h = mix(h, uint64(g.ID), g.hist, uint64(g.pending.kind), b2i(g.Done), uint64(g.pending.n+7))
		switch g.pending.kind {
		case vsrt.KSend, vsrt.KRecv, vsrt.KClose:
			h = mix(h, uint64(x.chans[g.pending.obj].id))
		case vsrt.KWgAdd, vsrt.KWgWait, vsrt.KLock, vsrt.KUnlock:
			h = mix(h, uint64(x.wgs[g.pending.obj].id))
		case vsrt.KYield, vsrt.KChoice:
			h = mix(h, strHash(g.pending.tag))
		case vsrt.KSelect:
			for _, sc := range g.pending.sel {
				h = mix(h, uint64(x.chans[sc.obj].id), b2i(sc.send))
			}
			h = mix(h, b2i(g.pending.hasDefault))
		}
	}
	cs := make([]*chanModel, 0, len(x.chans))
	for _, c := range x.chans {
		cs = append(cs, c)
	}
	sort.Slice(cs, func(i, j int) bool { return cs[i].id < cs[j].id })
	for _, c := range cs {
		h = mix(h, uint64(c.id), b2i(c.closed), uint64(c.len))
	}
	ws := make([]*wgModel, 0, len(x.wgs))
	for _, w := range x.wgs {
		ws = append(ws, w)
	}
	sort.Slice(ws, func(i, j int) bool { return ws[i].id < ws[j].id })
	for _, w := range ws {
		h = mix(h, uint64(w.id), uint64(w.cnt+1000), uint64(w.readers))
	}
	if len(x.timers) > 0 {
		tms := make([]uintptr, 0, len(x.timers))
		for p := range x.timers {
			tms = append(tms, p)
		}
		sort.Slice(tms, func(i, j int) bool { return x.chans[tms[i]].id < x.chans[tms[j]].id })
		for _, p := range tms {
			t := x.timers[p]
			h = mix(h, uint64(x.chans[p].id), b2i(t.stopped), b2i(t.fired))
		}
		h = mix(h, uint64(x.fires))
	}
	// which goroutine ran last matters for the canonical order / costs
	h = mix(h, uint64(x.lastRun+1))
	return h
}

func (x *Exec) fire(t transition) {
	a := x.gs[t.a]
	o := a.pending
	a.nops++
	if t.timer != 0 {
		tm := x.timers[t.timer]
		tm.fired = true
		x.fires++
		tm.ch <- time.Time{} // capacity 1 and empty (canFire): never blocks; the woken goroutine receives it at once
		a.hist = mix(a.hist, uint64(999), uint64(x.chans[t.timer].id))
	}
	switch o.kind {
	case vsrt.KClose:
		c := x.chans[o.obj]
		c.closed = true
		a.hist = mix(a.hist, uint64(o.kind), uint64(c.id))
	case vsrt.KWgAdd:
		w := x.wgs[o.obj]
		w.cnt += o.n
		a.hist = mix(a.hist, uint64(o.kind), uint64(w.id), uint64(o.n+1000))
	case vsrt.KWgWait:
		a.hist = mix(a.hist, uint64(o.kind), uint64(x.wgs[o.obj].id))
	case vsrt.KLock:
		m := x.wgs[o.obj]
		if o.n == 1 {
			m.readers++
		} else {
			m.cnt = 1
		}
		a.hist = mix(a.hist, uint64(o.kind), uint64(m.id), uint64(o.n))
	case vsrt.KUnlock:
		m := x.wgs[o.obj]
		if o.n == 1 {
			m.readers--
		} else {
			m.cnt = 0
		}
		a.hist = mix(a.hist, uint64(o.kind), uint64(m.id), uint64(o.n))
	case vsrt.KSend:
		c := x.chans[o.obj]
		a.hist = mix(a.hist, uint64(o.kind), uint64(c.id))
		if t.b >= 0 {
			b := x.gs[t.b]
			b.nops++
			b.hist = mix(b.hist, uint64(vsrt.KRecv), uint64(c.id), uint64(a.ID), uint64(a.nops), uint64(t.altB+2))
		} else if !c.closed {
			c.len++
		}
	case vsrt.KSelect:
		a.hist = mix(a.hist, uint64(o.kind), uint64(t.alt+2))
		if t.alt >= 0 {
			sc := o.sel[t.alt]
			c := x.chans[sc.obj]
			a.hist = mix(a.hist, uint64(c.id), b2i(sc.send))
			if sc.send {
				if t.b >= 0 {
					b := x.gs[t.b]
					b.nops++
					b.hist = mix(b.hist, uint64(vsrt.KRecv), uint64(c.id), uint64(a.ID), uint64(a.nops))
				} else if !c.closed {
					c.len++
				}
			} else if c.len > 0 {
				c.len--
			}
		}
	case vsrt.KRecv:
		c := x.chans[o.obj]
		if c.len > 0 {
			c.len--
		}
		a.hist = mix(a.hist, uint64(o.kind), uint64(c.id), b2i(c.closed))
	case vsrt.KChoice:
		a.hist = mix(a.hist, uint64(o.kind), strHash(o.tag), uint64(t.alt))
	case vsrt.KYield:
		if o.tag == SpinTag {
			break // waiting changes nothing: the state repeats, which is how a livelock is recognised
		}
		a.hist = mix(a.hist, uint64(o.kind), strHash(o.tag))
		if o.tag != "" && o.tag != "atomic" {
			x.Marks = append(x.Marks, fmt.Sprintf("%s@%s", o.tag, a.Name))
			if x.OnMark != nil {
				x.OnMark(x, o.tag, a)
			}
		}
	default:
		a.hist = mix(a.hist, uint64(o.kind))
	}
	x.Trace = append(x.Trace, t.desc)
	x.lastRun = t.a
	x.mu.Lock()
	a.parked = false
	x.running++
	if t.b >= 0 {
		x.gs[t.b].parked = false
		x.gs[t.b].resume = true // the receiver of a rendezvous
		x.running++
	}
	x.mu.Unlock()
	a.wake <- t.alt
	if t.b >= 0 {
		x.gs[t.b].wake <- t.altB
	}
}

// Goroutines returns the managed goroutines (for leak reports).
func (x *Exec) Goroutines() []*G { return x.gs }

// Pending describes what a goroutine is waiting for.
func (g *G) Pending() string {
	if g.pending.tag != "" {
		return vsrt.KindName[g.pending.kind] + "(" + g.pending.tag + ")"
	}
	return vsrt.KindName[g.pending.kind]
}

// Install puts the scheduler behind the vsrt hooks.
func Install() {
	vsrt.PreHook = preHook
	vsrt.GoHook = goHook
	vsrt.OrderHook = orderHook
	vsrt.SelectHook = selectHook
	vsrt.PostHook = postHook
	vsrt.TimerHook = timerHook
	vsrt.AbortingHook = func() bool {
		x := cur
		if x == nil {
			return false
		}
		x.mu.Lock()
		defer x.mu.Unlock()
		return x.aborting
	}
}

// Uninstall restores pass-through mode.
func Uninstall() {
	vsrt.PreHook, vsrt.GoHook, vsrt.OrderHook, vsrt.SelectHook, vsrt.PostHook, vsrt.TimerHook, vsrt.AbortingHook = nil, nil, nil, nil, nil, nil, nil
}

// abortAll lets every parked goroutine of a finished execution unwind and exit,
// so that millions of executions do not accumulate blocked goroutines.
func (x *Exec) abortAll() {
	x.mu.Lock()
	x.aborting = true
	var wake []*G
	for _, g := range x.gs {
		if !g.Done && g.parked {
			g.parked = false
			x.running++
			wake = append(wake, g)
		}
	}
	x.mu.Unlock()
	for _, g := range wake {
		g.wake <- abortSignal
	}
	deadline := time.Now().Add(5 * time.Second)
	for {
		x.mu.Lock()
		all := true
		for _, g := range x.gs {
			if !g.Done {
				all = false
			}
		}
		x.mu.Unlock()
		if all || time.Now().After(deadline) {
			return
		}
		runtime.Gosched()
	}
}

// Run executes body under the scheduler following prefix, then alternative 0.
func Run(prefix []int, body func(), onMark func(x *Exec, tag string, g *G)) *Exec {
	x := run(prefix, body, onMark)
	x.abortAll()
	return x
}

func run(prefix []int, body func(), onMark func(x *Exec, tag string, g *G)) *Exec {
	x := &Exec{byGo: map[int64]*G{}, chans: map[uintptr]*chanModel{}, wgs: map[uintptr]*wgModel{}, timers: map[uintptr]*timerModel{}, quiet: make(chan struct{}, 1), OnMark: onMark}
	cur = x
	main := &G{ID: 0, Name: "main", wake: make(chan int, 1)}
	x.gs = append(x.gs, main)
	x.running = 1
	go x.runG(main, nil, body)
	timer := time.NewTimer(30 * time.Second)
	defer timer.Stop()
	spinSeen := map[uint64]bool{}
	for step := 0; ; step++ {
		if !timer.Stop() {
			select {
			case <-timer.C:
			default:
			}
		}
		timer.Reset(30 * time.Second)
		select {
		case <-x.quiet:
		case <-timer.C:
			x.Harness = "a goroutine did not reach its next scheduling point within 30 s (un-instrumented blocking call, or the channel/wait-group model disagrees with the runtime); trace: " + fmt.Sprint(x.Trace)
			return x
		}
		x.mu.Lock()
		if x.running != 0 {
			x.mu.Unlock()
			continue
		}
		err := x.Err
		x.mu.Unlock()
		if err != "" {
			return x
		}
		ts := x.enabled()
		if len(ts) == 0 {
			for _, g := range x.gs {
				if !g.Done {
					x.Err = fmt.Sprintf("deadlock: %s is blocked forever at %s", g.Name, g.Pending())
					break
				}
			}
			return x
		}
		allSpin := true
		for _, t := range ts {
			if !t.spin {
				allSpin = false
			}
		}
		if allSpin {
			k := x.key()
			if spinSeen[k] {
				x.Err = "livelock: only goroutines polling an atomic can move and the state repeats: " + ts[0].desc
				return x
			}
			spinSeen[k] = true
		} else if len(spinSeen) > 0 {
			spinSeen = map[uint64]bool{}
		}
		c := 0
		if step < len(prefix) {
			c = prefix[step]
			if c >= len(ts) {
				x.Harness = fmt.Sprintf("replay divergence at step %d: alternative %d of %d", step, c, len(ts))
				return x
			}
		}
		p := Point{Key: x.key(), Costs: make([]int, len(ts)), Descs: make([]string, len(ts))}
		for i, t := range ts {
			p.Costs[i], p.Descs[i] = t.cost, t.desc
		}
		x.Points = append(x.Points, p)
		x.Choices = append(x.Choices, c)
		x.fire(ts[c])
	}
}
