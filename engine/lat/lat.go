// Package lat is the bounded exhaustive input search: a depth-first search
// whose states are partial polygons on a lattice and whose transitions append
// one vertex / close a ring / open a hole.  Pruning is by validity only.
package lat

import (
	"fmt"
	"os"
	"runtime"
	"sync"
	"sync/atomic"

	"verif/engine/ref"
)

type Spec struct {
	Name   string
	Points []ref.P // candidate vertices (window-relative lattice points), in fixed order
	MinK   int     // minimum vertices of the shell (default 3 for valid scopes, 1 otherwise)
	MaxK   int     // maximum vertices of the shell
	// Valid: only valid polygons (simple CCW shell, simple CW holes strictly
	// inside and mutually disjoint).  Otherwise every vertex sequence.
	Valid bool
	// holes (valid scopes) or extra rings (any scopes)
	MaxHoles int
	HoleMaxK int
	HoleMinK int
	// any-scopes: allow the same point several times in one ring (incl. consecutively)
	Repeats bool
	// any-scopes with Repeats: revisits allowed but not twice in a row (long walks)
	NoStutter bool
	// Prefix: fixed rings placed before the enumerated one (any-scopes): e.g. a fixed shell with an enumerated hole
	Prefix [][]ref.P
	// Suffix: fixed rings placed after the enumerated ones (any-scopes): e.g. an enumerated shell with a fixed hole
	Suffix [][]ref.P
	// Explicit: a stated finite family of polygons instead of the free search (each is one state)
	Explicit [][][]ref.P
	// HoleShapes/HoleOffsets (valid scopes): holes are not searched freely but are every shape translated by every
	// offset that puts it strictly inside the shell and clear of the holes placed before (shells from a coarse
	// point set, small holes anywhere inside)
	HoleShapes  [][]ref.P
	HoleOffsets []ref.P
}

// Window returns the lattice points of a w x h pixel window with sub steps per pixel.
func Window(w, h int, sub int64) []ref.P {
	var pts []ref.P
	for j := int64(0); j <= int64(h)*sub; j++ {
		for i := int64(0); i <= int64(w)*sub; i++ {
			pts = append(pts, ref.P{i, j})
		}
	}
	return pts
}

// Centres returns the pixel centres of a w x h window on the half-pixel lattice (sub=2).
func Centres(w, h int) []ref.P {
	var pts []ref.P
	for j := 0; j < h; j++ {
		for i := 0; i < w; i++ {
			pts = append(pts, ref.P{int64(2*i + 1), int64(2*j + 1)})
		}
	}
	return pts
}

type Stats struct {
	States      int64 // DFS nodes (partial inputs) visited
	Transitions int64 // accepted extensions (append vertex / close ring / open hole)
	Inputs      int64 // complete inputs emitted
	Aborted     bool
}

type walker struct {
	spec  Spec
	visit func(w int, rings [][]ref.P)
	w     int
	st    Stats
	rings [][]ref.P
	stop  func() bool
}

func contains(r []ref.P, p ref.P) bool {
	for _, q := range r {
		if q == p {
			return true
		}
	}
	return false
}

// canAppend: appending p to the open simple chain r keeps it extendable to a simple ring
func canAppend(r []ref.P, p ref.P) bool {
	n := len(r)
	if n == 0 {
		return true
	}
	if contains(r, p) {
		return false
	}
	last := r[n-1]
	if n >= 2 && ref.FoldsBack(r[n-2], last, p) {
		return false
	}
	for i := 0; i+2 < n; i++ {
		if ref.SegsTouch(r[i], r[i+1], last, p) {
			return false
		}
	}
	// p must not sit on the previous edge's interior either (covered by FoldsBack)
	return true
}

// canClose: closing edge r[n-1]->r[0] keeps the ring simple
func canClose(r []ref.P) bool {
	n := len(r)
	if n < 3 {
		return false
	}
	a, b := r[n-1], r[0]
	if ref.FoldsBack(r[n-2], a, b) || ref.FoldsBack(a, b, r[1]) {
		return false
	}
	for i := 1; i+2 < n; i++ {
		if ref.SegsTouch(r[i], r[i+1], a, b) {
			return false
		}
	}
	return true
}

func (wk *walker) emit() {
	wk.st.Inputs++
	wk.st.Transitions++ // the "close / complete" transition
	wk.visit(wk.w, wk.rings)
}

// shell DFS (valid)
func (wk *walker) shell(r []ref.P) {
	wk.st.States++
	if wk.stop != nil && wk.st.States&1023 == 0 && wk.stop() {
		wk.st.Aborted = true
		return
	}
	if len(r) >= max(3, wk.spec.MinK) && canClose(r) && ref.Area2(r) > 0 {
		wk.rings = [][]ref.P{r}
		wk.emit()
		if wk.spec.MaxHoles > 0 {
			wk.holes(r, nil)
		}
	}
	if len(r) == wk.spec.MaxK {
		return
	}
	for _, p := range wk.spec.Points {
		if !canAppend(r, p) {
			continue
		}
		wk.st.Transitions++
		wk.shell(append(r, p))
		if wk.st.Aborted {
			return
		}
	}
}

func (wk *walker) holes(shell []ref.P, done [][]ref.P) {
	if len(done) == wk.spec.MaxHoles {
		return
	}
	if len(wk.spec.HoleShapes) > 0 {
		for _, o := range wk.spec.HoleOffsets {
			for _, sh := range wk.spec.HoleShapes {
				wk.st.States++
				if wk.st.Aborted || (wk.stop != nil && wk.st.States&1023 == 0 && wk.stop()) {
					wk.st.Aborted = true
					return
				}
				h := make([]ref.P, len(sh))
				for i, p := range sh {
					h[i] = ref.P{p[0] + o[0], p[1] + o[1]}
				}
				if !ref.HoleOK(shell, done, h) {
					continue
				}
				wk.st.Transitions++
				hs := append(append([][]ref.P{}, done...), h)
				wk.rings = append([][]ref.P{shell}, hs...)
				wk.emit()
				wk.holes(shell, hs)
			}
		}
		return
	}
	var rec func(h []ref.P)
	rec = func(h []ref.P) {
		wk.st.States++
		if wk.st.Aborted || (wk.stop != nil && wk.st.States&1023 == 0 && wk.stop()) {
			wk.st.Aborted = true
			return
		}
		if len(h) >= max(3, wk.spec.HoleMinK) && canClose(h) && ref.Area2(h) < 0 && ref.HoleOK(shell, done, h) {
			hs := append(append([][]ref.P{}, done...), append([]ref.P{}, h...))
			wk.rings = append([][]ref.P{shell}, hs...)
			wk.emit()
			wk.holes(shell, hs)
		}
		if len(h) == wk.spec.HoleMaxK {
			return
		}
		for _, p := range wk.spec.Points {
			if ref.PointInRing(shell, p) != 1 || !canAppend(h, p) {
				continue
			}
			wk.st.Transitions++
			rec(append(h, p))
		}
	}
	rec(nil)
}

// any-sequence DFS
func (wk *walker) anyRing(done [][]ref.P, r []ref.P, ringNo int) {
	wk.st.States++
	if wk.stop != nil && wk.st.States&1023 == 0 && wk.stop() {
		wk.st.Aborted = true
		return
	}
	minK, maxK := wk.spec.MinK, wk.spec.MaxK
	if ringNo > 0 {
		minK, maxK = wk.spec.HoleMinK, wk.spec.HoleMaxK
	}
	if minK < 1 {
		minK = 1
	}
	if len(r) >= minK {
		wk.rings = append(append(append(append([][]ref.P{}, wk.spec.Prefix...), done...), r), wk.spec.Suffix...)
		wk.emit()
		if ringNo < wk.spec.MaxHoles {
			wk.anyRing(wk.rings[len(wk.spec.Prefix):len(wk.rings)-len(wk.spec.Suffix)], nil, ringNo+1)
		}
	}
	if len(r) == maxK {
		return
	}
	for _, p := range wk.spec.Points {
		if !wk.spec.Repeats && contains(r, p) {
			continue
		}
		if wk.spec.NoStutter && len(r) > 0 && r[len(r)-1] == p {
			continue
		}
		wk.st.Transitions++
		wk.anyRing(done, append(r, p), ringNo)
		if wk.st.Aborted {
			return
		}
	}
}

// Enumerate runs the search, sharded by the first vertex (and the second for
// finer balance) over `workers` goroutines.  visit is called concurrently with
// the worker index; rings must not be retained.
func Enumerate(spec Spec, workers int, stop func() bool, visit func(w int, rings [][]ref.P)) Stats {
	if workers <= 0 {
		workers = runtime.NumCPU()
	}
	if len(spec.Explicit) > 0 {
		shardI, shardN := 0, 1
		if v := os.Getenv("VERIF_SHARD"); v != "" {
			fmt.Sscanf(v, "%d/%d", &shardI, &shardN)
		}
		var st Stats
		st.States = 1
		own := 0
		for i, rings := range spec.Explicit {
			if i%shardN != shardI {
				continue
			}
			// (counted per shard: i itself is a multiple of 256 only in shard 0)
			if own++; stop != nil && own&63 == 0 && stop() {
				st.Aborted = true
				break
			}
			st.States++
			st.Transitions++
			st.Inputs++
			visit(0, rings)
		}
		return st
	}
	type job struct{ a, b int }
	jobs := make(chan job, 256)
	var total Stats
	var aborted atomic.Bool
	var mu sync.Mutex
	var wg sync.WaitGroup
	for w := 0; w < workers; w++ {
		wg.Add(1)
		go func(w int) {
			defer wg.Done()
			wk := &walker{spec: spec, visit: visit, w: w, stop: stop}
			for j := range jobs {
				if aborted.Load() {
					continue
				}
				r := make([]ref.P, 0, spec.MaxK+1)
				r = append(r, spec.Points[j.a])
				if j.b < 0 {
					// the length-1 prefix itself (counts the state, emits if MinK<=1)
					if spec.Valid {
						wk.st.States++
					} else {
						wk.st.States++
						if spec.MinK <= 1 {
							wk.rings = append(append(append([][]ref.P{}, spec.Prefix...), r), spec.Suffix...)
							wk.emit()
							if spec.MaxHoles > 0 {
								wk.anyRing(wk.rings[len(spec.Prefix):len(wk.rings)-len(spec.Suffix)], nil, 1)
							}
						}
					}
					continue
				}
				p := spec.Points[j.b]
				if spec.Valid {
					if !canAppend(r, p) {
						continue
					}
					wk.st.Transitions++
					wk.shell(append(r, p))
				} else {
					if (!spec.Repeats || spec.NoStutter) && j.a == j.b {
						continue
					}
					if spec.MaxK < 2 {
						continue
					}
					wk.st.Transitions++
					wk.anyRing(nil, append(r, p), 0)
				}
				if wk.st.Aborted {
					aborted.Store(true)
				}
			}
			mu.Lock()
			total.States += wk.st.States
			total.Transitions += wk.st.Transitions
			total.Inputs += wk.st.Inputs
			mu.Unlock()
		}(w)
	}
	shardI, shardN := 0, 1
	if v := os.Getenv("VERIF_SHARD"); v != "" {
		fmt.Sscanf(v, "%d/%d", &shardI, &shardN)
	}
	jn := 0
	for a := range spec.Points {
		for b := -1; b < len(spec.Points); b++ {
			jn++
			if jn%shardN != shardI {
				continue
			}
			jobs <- job{a, b}
		}
	}
	close(jobs)
	wg.Wait()
	total.States++ // the empty prefix (root)
	total.Transitions += int64(len(spec.Points))
	total.Aborted = aborted.Load()
	return total
}
