// Package ev is the reporting side of every check: evidence file, violation
// artefacts (replay files), known-findings lookup and the exit status contract
// of MANIFEST.json (exit 0 / exit 1 + "VIOLATION property=<id> replay=<path>").
package ev

import (
	"encoding/json"
	"fmt"
	"os"
	"os/exec"
	"path/filepath"
	"sort"
	"strconv"
	"sync"
	"time"
)

const Root = "/verif"

// Finding is one entry of /verif/known-findings.json
type Finding struct {
	Property string `json:"property"`
	Name     string `json:"name"`   // F5, F6, ...
	Status   string `json:"status"` // "known" or "fixed"
	// Signature is the mechanism signature a check computes for a violation
	// (never just the property id). Only status=="known" entries suppress.
	Signature string `json:"signature"`
	What      string `json:"what"`
	Commit    string `json:"commit,omitempty"`
}

type Run struct {
	ID    string
	Tier  string
	Seed  int
	start time.Time

	mu          sync.Mutex
	violations  int
	known       map[string]int // signature -> count
	knownWhat   map[string]string
	findings    []Finding
	replayN     int
	maxReplays  int
	vioSigs     map[string]int
	Assumptions []string
	Deadline    time.Time // zero = none
	deadlineHit bool
	ShardI      int
	ShardN      int // 0 = not a shard child
	// ShardFail, if set, is asked what to do when a shard child exits abnormally
	// (code under test may call log.Fatal); true = handled, carry on without its partial result
	ShardFail func(i int, err error) bool
}

// Partial is what a shard child hands to its parent.
type Partial struct {
	Violations  int               `json:"violations"`
	Known       map[string]int    `json:"known"`
	KnownWhat   map[string]string `json:"known_what"`
	VioSigs     map[string]int    `json:"vio_sigs"`
	DeadlineHit bool              `json:"deadline_hit"`
	Data        json.RawMessage   `json:"data"`
}

// FinishStage ends a multi-stage check's non-final stage: the run state and cov go
// to path for the final stage to absorb; nothing is written to the evidence file.
func (r *Run) FinishStage(path string, cov map[string]any) {
	r.mu.Lock()
	b, err := json.Marshal(cov)
	if err != nil {
		HarnessError("stage data not serialisable: %v", err)
	}
	p := Partial{Violations: r.violations, Known: r.known, KnownWhat: r.knownWhat, VioSigs: r.vioSigs, DeadlineHit: r.deadlineHit, Data: b}
	out, _ := json.Marshal(p)
	r.mu.Unlock()
	if err := os.WriteFile(path, out, 0o644); err != nil {
		HarnessError("cannot write stage result: %v", err)
	}
	fmt.Printf("%s %s stage: violations=%d wall=%.1fs\n", r.ID, r.Tier, p.Violations, time.Since(r.start).Seconds())
	os.Exit(0)
}

// AbsorbStage merges an earlier stage's run state and returns its coverage map.
func (r *Run) AbsorbStage(path string) map[string]any {
	b, err := os.ReadFile(path)
	if err != nil {
		HarnessError("earlier stage left no result: %v", err)
	}
	var p Partial
	if err := json.Unmarshal(b, &p); err != nil {
		HarnessError("stage result unreadable: %v", err)
	}
	r.mu.Lock()
	defer r.mu.Unlock()
	r.violations += p.Violations
	for k, v := range p.Known {
		r.known[k] += v
		r.knownWhat[k] = p.KnownWhat[k]
	}
	for k, v := range p.VioSigs {
		r.vioSigs[k] += v
	}
	if p.DeadlineHit {
		r.deadlineHit = true
	}
	var cov map[string]any
	if err := json.Unmarshal(p.Data, &cov); err != nil {
		HarnessError("stage coverage unreadable: %v", err)
	}
	return cov
}

// IsShard reports whether this process is a shard child.
func (r *Run) IsShard() bool { return r.ShardN > 0 }

// FinishShard writes the partial result for the parent and exits 0.
func (r *Run) FinishShard(data any) {
	r.mu.Lock()
	b, err := json.Marshal(data)
	if err != nil {
		HarnessError("partial data not serialisable: %v", err)
	}
	p := Partial{Violations: r.violations, Known: r.known, KnownWhat: r.knownWhat, VioSigs: r.vioSigs, DeadlineHit: r.deadlineHit, Data: b}
	out, _ := json.Marshal(p)
	r.mu.Unlock()
	if err := os.WriteFile(os.Getenv("VERIF_PARTIAL"), out, 0o644); err != nil {
		HarnessError("cannot write partial: %v", err)
	}
	os.Exit(0)
}

func shardProcs() string {
	if v := os.Getenv("VERIF_SHARD_GOMAXPROCS"); v != "" {
		return v
	}
	return "2"
}

// RunShards re-executes this binary n times (GOMAXPROCS=1 each; measured 4x
// more throughput than goroutines because of allocator/GC contention), merges
// the run state and returns each child's data.
func (r *Run) RunShards(n int) []json.RawMessage {
	dir := os.Getenv("VERIF_WORK")
	if dir == "" {
		dir = os.TempDir()
	}
	type res struct {
		i   int
		err error
	}
	ch := make(chan res, n)
	failed := map[int]bool{}
	for i := 0; i < n; i++ {
		i := i
		go func() {
			cmd := exec.Command(os.Args[0], os.Args[1:]...)
			cmd.Env = append(os.Environ(), fmt.Sprintf("VERIF_SHARD=%d/%d", i, n), fmt.Sprintf("VERIF_PARTIAL=%s/partial-%s-%d.json", dir, r.ID, i), "GOMAXPROCS="+shardProcs(), "GOGC=200", "GOMEMLIMIT=3GiB")
			cmd.Stdout = os.Stdout
			cmd.Stderr = os.Stderr
			ch <- res{i, cmd.Run()}
		}()
	}
	for k := 0; k < n; k++ {
		x := <-ch
		if x.err != nil {
			if r.ShardFail != nil && r.ShardFail(x.i, x.err) {
				failed[x.i] = true
				continue
			}
			HarnessError("shard %d failed: %v", x.i, x.err)
		}
	}
	var out []json.RawMessage
	for i := 0; i < n; i++ {
		if failed[i] {
			r.deadlineHit = true // its part of the space was not completed
			continue
		}
		b, err := os.ReadFile(fmt.Sprintf("%s/partial-%s-%d.json", dir, r.ID, i))
		if err != nil {
			HarnessError("shard %d left no partial result: %v", i, err)
		}
		var p Partial
		if err := json.Unmarshal(b, &p); err != nil {
			HarnessError("shard %d partial unreadable: %v", i, err)
		}
		r.violations += p.Violations
		for k, v := range p.Known {
			r.known[k] += v
			r.knownWhat[k] = p.KnownWhat[k]
		}
		for k, v := range p.VioSigs {
			r.vioSigs[k] += v
		}
		if p.DeadlineHit {
			r.deadlineHit = true
		}
		out = append(out, p.Data)
	}
	return out
}

func New(id string) *Run {
	tier := os.Getenv("VERIF_TIER")
	if tier != "thorough" {
		tier = "quick"
	}
	seed, _ := strconv.Atoi(os.Getenv("VERIF_SEED"))
	r := &Run{ID: id, Tier: tier, Seed: seed, start: time.Now(), known: map[string]int{}, knownWhat: map[string]string{}, vioSigs: map[string]int{}, maxReplays: 20}
	if b, err := os.ReadFile(filepath.Join(Root, "known-findings.json")); err == nil {
		var all []Finding
		if err := json.Unmarshal(b, &all); err != nil {
			fmt.Fprintln(os.Stderr, "HARNESS-ERROR: known-findings.json unreadable:", err)
			os.Exit(2)
		}
		for _, f := range all {
			if f.Property == id {
				r.findings = append(r.findings, f)
			}
		}
	}
	if v := os.Getenv("VERIF_SHARD"); v != "" {
		fmt.Sscanf(v, "%d/%d", &r.ShardI, &r.ShardN)
		r.maxReplays = 2
	}
	if r.ShardN == 0 && os.Getenv("VERIF_REPLAY") == "" && os.Getenv("VERIF_STAGE_IN") == "" {
		old, _ := filepath.Glob(filepath.Join(Root, "replays", id, tier+"-*.json"))
		for _, f := range old {
			_ = os.Remove(f)
		}
	}
	if d := os.Getenv("VERIF_DEADLINE_S"); d != "" {
		if s, err := strconv.Atoi(d); err == nil && s > 0 {
			r.Deadline = r.start.Add(time.Duration(s) * time.Second)
		}
	}
	return r
}

func (r *Run) Thorough() bool { return r.Tier == "thorough" }

// Expired reports whether the internal deadline passed (checks then stop
// expanding and report exhaustive:false).
func (r *Run) Expired() bool {
	if r.Deadline.IsZero() {
		return false
	}
	if time.Now().After(r.Deadline) {
		r.mu.Lock()
		r.deadlineHit = true
		r.mu.Unlock()
		return true
	}
	return false
}

func (r *Run) DeadlineHit() bool { r.mu.Lock(); defer r.mu.Unlock(); return r.deadlineHit }

// Violation records one violation. sig is the mechanism signature (used for
// the known-findings lookup), replay is any JSON-serialisable description that
// suffices to re-run the case. Returns true if it was a new (unlisted) violation.
func (r *Run) Violation(sig string, what string, replay any) bool {
	r.mu.Lock()
	defer r.mu.Unlock()
	for _, f := range r.findings {
		if f.Status == "known" && f.Signature == sig {
			r.known[sig]++
			r.knownWhat[sig] = f.Name + " " + f.What
			return false
		}
	}
	r.violations++
	r.vioSigs[sig]++
	if r.replayN >= r.maxReplays {
		return true
	}
	r.replayN++
	dir := filepath.Join(Root, "replays", r.ID)
	_ = os.MkdirAll(dir, 0o755)
	stage := os.Getenv("VERIF_STAGE_NAME")
	path := filepath.Join(dir, fmt.Sprintf("%s-%s%d.json", r.Tier, stage, r.replayN))
	if r.ShardN > 0 {
		path = filepath.Join(dir, fmt.Sprintf("%s-%ss%d-%d.json", r.Tier, stage, r.ShardI, r.replayN))
	}
	b, _ := json.MarshalIndent(map[string]any{"property": r.ID, "signature": sig, "what": what, "case": replay}, "", " ")
	_ = os.WriteFile(path, b, 0o644)
	fmt.Printf("VIOLATION property=%s replay=%s\n", r.ID, path)
	fmt.Printf("  signature=%s %s\n", sig, what)
	return true
}

func (r *Run) Violations() int { r.mu.Lock(); defer r.mu.Unlock(); return r.violations }

// HarnessError aborts with exit status 2: the machinery, not texel, is at fault.
func HarnessError(format string, a ...any) {
	fmt.Fprintf(os.Stderr, "HARNESS-ERROR: "+format+"\n", a...)
	os.Exit(2)
}

// Finish writes the evidence file and exits with the contract status.
// cov must contain the model_checking keys: states, transitions,
// traces_validated_against_impl, samples (+ anything else).
func (r *Run) Finish(cov map[string]any) {
	r.mu.Lock()
	wall := time.Since(r.start).Seconds()
	if _, ok := cov["exhaustive"]; !ok {
		cov["exhaustive"] = !r.deadlineHit
	} else if r.deadlineHit {
		cov["exhaustive"] = false
	}
	if r.deadlineHit {
		cov["deadline_hit"] = true
	}
	sigs := make([]string, 0, len(r.known))
	for s := range r.known {
		sigs = append(sigs, s)
	}
	sort.Strings(sigs)
	kf := map[string]int{}
	for _, s := range sigs {
		fmt.Printf("KNOWN-FINDING: property=%s %s signature=%s occurrences=%d\n", r.ID, r.knownWhat[s], s, r.known[s])
		kf[s] = r.known[s]
	}
	cov["known_finding_occurrences"] = kf
	cov["violation_signatures"] = r.vioSigs
	evd := map[string]any{
		"property_id": r.ID,
		"tier":        r.Tier,
		"seed":        r.Seed,
		"level":       "model_checking",
		"coverage":    cov,
		"assumptions": r.Assumptions,
		"wall_s":      wall,
		"violations":  r.violations,
	}
	if r.Assumptions == nil {
		evd["assumptions"] = []string{}
	}
	b, err := json.MarshalIndent(evd, "", " ")
	if err != nil {
		HarnessError("evidence not serialisable: %v", err)
	}
	evDir := filepath.Join(Root, "evidence")
	if d := os.Getenv("VERIF_EVIDENCE_DIR"); d != "" {
		evDir = d // background / exploratory runs must not overwrite the committed evidence
	}
	_ = os.MkdirAll(evDir, 0o755)
	if err := os.WriteFile(filepath.Join(evDir, r.ID+".json"), b, 0o644); err != nil {
		HarnessError("cannot write evidence: %v", err)
	}
	v := r.violations
	r.mu.Unlock()
	fmt.Printf("%s %s: states=%v transitions=%v exhaustive=%v violations=%d wall=%.1fs\n", r.ID, r.Tier, cov["states"], cov["transitions"], cov["exhaustive"], v, wall)
	if v > 0 {
		os.Exit(1)
	}
	os.Exit(0)
}

// Exit ends a run without touching the evidence file (replay mode).
func (r *Run) Exit() {
	if r.Violations() > 0 {
		os.Exit(1)
	}
	os.Exit(0)
}

// Samples keeps the first n distinct-looking samples thread-safely.
type Samples struct {
	mu sync.Mutex
	N  int
	L  []any
}

func (s *Samples) Add(x any) {
	s.mu.Lock()
	if len(s.L) < s.N {
		s.L = append(s.L, x)
	}
	s.mu.Unlock()
}
func (s *Samples) Want() bool { s.mu.Lock(); defer s.mu.Unlock(); return len(s.L) < s.N }
