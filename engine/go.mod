module verif/engine

go 1.21.6

require (
	github.com/go-spatial/geom v0.0.0-20220918193402-3cd2f5a9a082
	github.com/mattn/go-sqlite3 v1.14.17
	github.com/pdok/texel v0.0.0
)

replace github.com/pdok/texel => /repo
