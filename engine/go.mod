module verif/engine

go 1.21.6

require (
	github.com/go-spatial/geom v0.0.0-20220918193402-3cd2f5a9a082
	github.com/mattn/go-sqlite3 v1.14.17
	github.com/pdok/texel v0.0.0
)

require (
	github.com/bahlo/generic-list-go v0.2.0 // indirect
	github.com/buger/jsonparser v1.1.1 // indirect
	github.com/creasty/defaults v1.7.0 // indirect
	github.com/gabriel-vasile/mimetype v1.4.2 // indirect
	github.com/gdey/errors v0.0.0-20190426172550-8ebd5bc891fb // indirect
	github.com/go-playground/locales v0.14.1 // indirect
	github.com/go-playground/universal-translator v0.18.1 // indirect
	github.com/go-playground/validator/v10 v10.16.0 // indirect
	github.com/josharian/intern v1.0.0 // indirect
	github.com/leodido/go-urn v1.2.4 // indirect
	github.com/mailru/easyjson v0.7.7 // indirect
	github.com/mattn/go-runewidth v0.0.12 // indirect
	github.com/muesli/reflow v0.3.0 // indirect
	github.com/perimeterx/marshmallow v1.1.5 // indirect
	github.com/rivo/uniseg v0.2.0 // indirect
	github.com/tobshub/go-sortedmap v1.0.3 // indirect
	github.com/wk8/go-ordered-map/v2 v2.1.8 // indirect
	golang.org/x/crypto v0.7.0 // indirect
	golang.org/x/exp v0.0.0-20231110203233-9a3e6036ecaa // indirect
	golang.org/x/net v0.8.0 // indirect
	golang.org/x/text v0.8.0 // indirect
	gopkg.in/yaml.v3 v3.0.1 // indirect
)

replace github.com/pdok/texel => /repo
