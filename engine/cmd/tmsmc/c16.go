package main

import (
	"bytes"
	"crypto/sha256"
	"encoding/binary"
	"encoding/json"
	"fmt"
	"hash/fnv"
	"math"
	"os"
	"reflect"
	"regexp"
	"runtime"
	"sort"
	"strings"

	"github.com/pdok/texel/tms20"
	"verif/engine/ev"
)

// ---- generic JSON tree with ordered traversal ----

// path addresses a node: keys (string) and indexes (int)
type jpath []any

func getAt(v any, p jpath) any {
	for _, k := range p {
		switch kk := k.(type) {
		case string:
			v = v.(map[string]any)[kk]
		case int:
			v = v.([]any)[kk]
		}
	}
	return v
}

// clone deep-copies a decoded JSON value
func clone(v any) any {
	switch t := v.(type) {
	case map[string]any:
		m := make(map[string]any, len(t))
		for k, x := range t {
			m[k] = clone(x)
		}
		return m
	case []any:
		s := make([]any, len(t))
		for i, x := range t {
			s[i] = clone(x)
		}
		return s
	}
	return v
}

// nodes lists the paths of all nodes below the root (sorted keys), parents first
func nodes(v any, prefix jpath, out *[]jpath) {
	switch t := v.(type) {
	case map[string]any:
		keys := make([]string, 0, len(t))
		for k := range t {
			keys = append(keys, k)
		}
		sort.Strings(keys)
		for _, k := range keys {
			p := append(append(jpath{}, prefix...), k)
			*out = append(*out, p)
			nodes(t[k], p, out)
		}
	case []any:
		for i := range t {
			p := append(append(jpath{}, prefix...), i)
			*out = append(*out, p)
			nodes(t[i], p, out)
		}
	}
}

// mutation: delete the node or replace it by a value
type mutation struct {
	Path    jpath  `json:"path"`
	Delete  bool   `json:"delete,omitempty"`
	Replace any    `json:"replace,omitempty"`
	Name    string `json:"name"`
}

var replacements = []struct {
	name string
	v    any
}{
	{"null", nil}, {"\"str\"", "str"}, {"\"12\"", "12"}, {"0", json.Number("0")}, {"-1", json.Number("-1")}, {"1.5", json.Number("1.5")},
	{"1e300", json.Number("1e300")}, {"0.1234567890123", json.Number("0.1234567890123")}, {"true", true}, {"[]", []any{}}, {"{}", map[string]any{}}, {"[1]", []any{json.Number("1")}},
}

// extra "change value" alternatives for the crs node: the other CRS encodings of the standard
var crsAlternatives = []struct {
	name string
	v    any
}{
	{"crs-uri-object", map[string]any{"uri": "http://www.opengis.net/def/crs/EPSG/0/28992", "description": "d"}},
	{"crs-urn-string", "urn:ogc:def:crs:EPSG::3857"},
	{"crs-wkt", map[string]any{"wkt": map[string]any{"id": map[string]any{"authority": "EPSG", "code": "28992"}, "name": "x"}}},
	{"crs-wkt-int-code", map[string]any{"wkt": map[string]any{"id": map[string]any{"authority": "EPSG", "code": json.Number("28992")}}}},
	{"crs-reference-system", map[string]any{"referenceSystem": map[string]any{"code": "x"}, "description": "d"}},
	{"crs-bad-uri", "http://example.com/nothing"},
}

func apply(doc any, m mutation) any {
	d := clone(doc)
	parent := getAt(d, m.Path[:len(m.Path)-1])
	last := m.Path[len(m.Path)-1]
	switch k := last.(type) {
	case string:
		pm := parent.(map[string]any)
		if m.Delete {
			delete(pm, k)
		} else {
			pm[k] = m.Replace
		}
	case int:
		ps := parent.([]any)
		if m.Delete {
			ns := append(append([]any{}, ps[:k]...), ps[k+1:]...)
			// re-attach to grandparent
			if len(m.Path) == 1 {
				return ns
			}
			gp := getAt(d, m.Path[:len(m.Path)-2])
			switch gk := m.Path[len(m.Path)-2].(type) {
			case string:
				gp.(map[string]any)[gk] = ns
			case int:
				gp.([]any)[gk] = ns
			}
		} else {
			ps[k] = m.Replace
		}
	}
	return d
}

// restricted alphabet for the deepest explorations: delete, null, -1, "str"
var restrictedAlphabet = map[string]bool{"null": true, "-1": true, "\"str\"": true}

func mutationsOf(doc any) []mutation { return mutationsOfA(doc, false) }

// optional members the standard allows that a given shipped document may not carry: inserted with an ordinary value
var optionalRoot = map[string]any{"id": "some-id", "title": "a title", "description": "a description", "keywords": []any{"k1", "k2"}, "uri": "http://www.opengis.net/def/tilematrixset/OGC/1.0/X",
	"wellKnownScaleSet": "http://www.opengis.net/def/wkss/OGC/1.0/GoogleMapsCompatible", "orderedAxes": []any{"E", "N"}}
var optionalTM = map[string]any{"title": "a title", "description": "a description", "keywords": []any{"k1"}, "cornerOfOrigin": "bottomLeft",
	"variableMatrixWidths": []any{map[string]any{"coalesce": json.Number("2"), "minTileRow": json.Number("0"), "maxTileRow": json.Number("1")}}}
var optionalBBox = map[string]any{"orderedAxes": []any{"E", "N"}}

func insertions(doc any) []mutation {
	var out []mutation
	add := func(prefix jpath, obj map[string]any, opts map[string]any) {
		keys := make([]string, 0, len(opts))
		for k := range opts {
			keys = append(keys, k)
		}
		sort.Strings(keys)
		for _, k := range keys {
			if _, present := obj[k]; !present {
				out = append(out, mutation{Path: append(append(jpath{}, prefix...), k), Replace: clone(opts[k]), Name: "=insert-" + k})
			}
		}
	}
	root, ok := doc.(map[string]any)
	if !ok {
		return nil
	}
	add(nil, root, optionalRoot)
	if bb, ok := root["boundingBox"].(map[string]any); ok {
		add(jpath{"boundingBox"}, bb, optionalBBox)
	}
	if l, ok := root["tileMatrices"].([]any); ok {
		for i, t := range l {
			if tm, ok := t.(map[string]any); ok {
				add(jpath{"tileMatrices", i}, tm, optionalTM)
			}
		}
	}
	return out
}

func mutationsOfA(doc any, restricted bool) []mutation {
	var ps []jpath
	nodes(doc, nil, &ps)
	var out []mutation
	if !restricted {
		out = append(out, insertions(doc)...)
	}
	for _, p := range ps {
		out = append(out, mutation{Path: p, Delete: true, Name: "delete"})
		cur := getAt(doc, p)
		for _, r := range replacements {
			if reflect.DeepEqual(cur, r.v) || (restricted && !restrictedAlphabet[r.name]) {
				continue
			}
			out = append(out, mutation{Path: p, Replace: r.v, Name: "=" + r.name})
		}
		// an array one element longer than written (a point with three coordinates, a third axis, a repeated tile matrix):
		// fixed-size targets of the decoder must reject what does not fit, not panic
		if arr, ok := cur.([]any); ok && len(arr) > 0 && !restricted {
			out = append(out, mutation{Path: p, Replace: append(append([]any{}, arr...), clone(arr[len(arr)-1])), Name: "=array+last"})
		}
		// tile matrix ids are integers written as strings: other spellings of the same integer (leading zero,
		// explicit sign) are accepted documents too and must survive the round trip as written
		if len(p) == 3 && !restricted {
			if k, ok := p[2].(string); ok && k == "id" {
				if root, ok := p[0].(string); ok && root == "tileMatrices" {
					if cs, ok := cur.(string); ok && intLike.MatchString(cs) && !strings.HasPrefix(cs, "-") && !strings.HasPrefix(cs, "+") {
						out = append(out, mutation{Path: p, Replace: "0" + cs, Name: "=id-leading-zero"}, mutation{Path: p, Replace: "+" + cs, Name: "=id-plus-sign"})
					}
				}
			}
		}
		if len(p) >= 1 {
			if k, ok := p[len(p)-1].(string); ok && k == "crs" && !restricted {
				for _, a := range crsAlternatives {
					out = append(out, mutation{Path: p, Replace: a.v, Name: "=" + a.name})
				}
				// the same reference written in the other of its two forms (string <-> object with a uri): the document
				// then spells one uri both ways (crs and boundingBox.crs)
				switch c := cur.(type) {
				case string:
					out = append(out, mutation{Path: p, Replace: map[string]any{"uri": c}, Name: "=crs-same-uri-as-object"})
				case map[string]any:
					if u, ok := c["uri"].(string); ok {
						out = append(out, mutation{Path: p, Replace: u, Name: "=crs-same-uri-as-string"})
					}
				}
			}
		}
	}
	return out
}

func decodeTree(b []byte) any {
	dec := json.NewDecoder(bytes.NewReader(b))
	dec.UseNumber()
	var v any
	if err := dec.Decode(&v); err != nil {
		ev.HarnessError("document is not JSON: %v", err)
	}
	return v
}

func canon(v any) string {
	b, err := json.Marshal(v) // maps are marshalled with sorted keys
	if err != nil {
		ev.HarnessError("canon: %v", err)
	}
	return string(b)
}

// ---- reference validity predicate (must-reject categories of the property) ----

func isNum(v any) (float64, bool) {
	n, ok := v.(json.Number)
	if !ok {
		return 0, false
	}
	f, err := n.Float64()
	if err != nil {
		return math.Inf(1), true
	}
	return f, true
}

// mustReject returns a reason if the document falls in a category the property
// names: crs / tileMatrices missing or of the wrong JSON type, a known field of
// the wrong JSON type, a size field <= 0 (or not a whole number), a non-integer id.
func mustReject(doc any) string {
	m, ok := doc.(map[string]any)
	if !ok {
		return "document is not an object"
	}
	crs, ok := m["crs"]
	if !ok {
		return "crs missing"
	}
	switch crs.(type) {
	case string, map[string]any:
	default:
		return "crs of wrong type"
	}
	tms, ok := m["tileMatrices"]
	if !ok {
		return "tileMatrices missing"
	}
	list, ok := tms.([]any)
	if !ok {
		return "tileMatrices of wrong type"
	}
	if len(list) == 0 {
		return "tileMatrices empty"
	}
	for _, k := range []string{"id", "title", "description", "uri", "wellKnownScaleSet"} {
		if v, ok := m[k]; ok && v != nil {
			if _, isStr := v.(string); !isStr {
				return k + " of wrong type"
			}
		}
	}
	for i, t := range list {
		tm, ok := t.(map[string]any)
		if !ok {
			return fmt.Sprintf("tileMatrices[%d] of wrong type", i)
		}
		id, ok := tm["id"]
		if !ok {
			return "tile matrix id missing"
		}
		ids, ok := id.(string)
		if !ok {
			return "tile matrix id of wrong type"
		}
		if !intLike.MatchString(ids) {
			return "non-integer tile matrix id"
		}
		for _, k := range []string{"tileWidth", "tileHeight", "matrixWidth", "matrixHeight"} {
			v, ok := tm[k]
			if !ok {
				return k + " missing"
			}
			f, isN := isNum(v)
			if !isN {
				return k + " of wrong type"
			}
			if f <= 0 {
				return k + " not positive"
			}
		}
		for _, k := range []string{"cellSize", "scaleDenominator"} {
			v, ok := tm[k]
			if !ok {
				return k + " missing"
			}
			f, isN := isNum(v)
			if !isN {
				return k + " of wrong type"
			}
			if f <= 0 {
				return k + " not positive"
			}
		}
		po, ok := tm["pointOfOrigin"]
		if !ok {
			return "pointOfOrigin missing"
		}
		pl, ok := po.([]any)
		if !ok {
			return "pointOfOrigin of wrong type"
		}
		for _, c := range pl {
			if _, isN := isNum(c); !isN {
				return fmt.Sprintf("pointOfOrigin coordinate of wrong type (%s)", jsonType(c))
			}
		}
		if co, ok := tm["cornerOfOrigin"]; ok {
			if _, isStr := co.(string); !isStr {
				return "cornerOfOrigin of wrong type"
			}
		}
	}
	// the optional bounding box: an object whose corners are lists of numbers
	if bb, ok := m["boundingBox"]; ok && bb != nil {
		bm, ok := bb.(map[string]any)
		if !ok {
			return "boundingBox of wrong type"
		}
		for _, k := range []string{"lowerLeft", "upperRight"} {
			c, ok := bm[k]
			if !ok {
				continue // "missing corner" is not one of the categories the property names
			}
			cl, ok := c.([]any)
			if !ok {
				return "boundingBox." + k + " of wrong type"
			}
			for _, x := range cl {
				if _, isN := isNum(x); !isN {
					return fmt.Sprintf("boundingBox.%s coordinate of wrong type (%s)", k, jsonType(x))
				}
			}
		}
	}
	return ""
}

// ---- the oracle for one document ----

type c16Case struct {
	Base      string     `json:"base_document"`
	Mutations []mutation `json:"mutations"`
	Document  string     `json:"document"`
}

var intLike = regexp.MustCompile(`^[+-]?[0-9]+$`)

func eqTMS(a, b *tms20.TileMatrixSet) bool {
	return looseEqual(reflect.ValueOf(*a), reflect.ValueOf(*b))
}

// looseEqual is reflect.DeepEqual except that nil and empty slices/maps are identified
func looseEqual(a, b reflect.Value) bool {
	if a.IsValid() != b.IsValid() {
		return false
	}
	if !a.IsValid() {
		return true
	}
	if a.Type() != b.Type() {
		return false
	}
	switch a.Kind() {
	case reflect.Slice, reflect.Array:
		if a.Len() != b.Len() {
			return false
		}
		for i := 0; i < a.Len(); i++ {
			if !looseEqual(a.Index(i), b.Index(i)) {
				return false
			}
		}
		return true
	case reflect.Map:
		if a.Len() != b.Len() {
			return false
		}
		for _, k := range a.MapKeys() {
			bv := b.MapIndex(k)
			if !bv.IsValid() || !looseEqual(a.MapIndex(k), bv) {
				return false
			}
		}
		return true
	case reflect.Ptr, reflect.Interface:
		if a.IsNil() || b.IsNil() {
			return a.IsNil() == b.IsNil()
		}
		return looseEqual(a.Elem(), b.Elem())
	case reflect.Struct:
		for i := 0; i < a.NumField(); i++ {
			if !looseEqual(a.Field(i), b.Field(i)) {
				return false
			}
		}
		return true
	case reflect.Float32, reflect.Float64:
		return a.Float() == b.Float()
	case reflect.String:
		return a.String() == b.String()
	case reflect.Bool:
		return a.Bool() == b.Bool()
	case reflect.Int, reflect.Int8, reflect.Int16, reflect.Int32, reflect.Int64:
		return a.Int() == b.Int()
	case reflect.Uint, reflect.Uint8, reflect.Uint16, reflect.Uint32, reflect.Uint64, reflect.Uintptr:
		return a.Uint() == b.Uint()
	}
	return false
}

// judge returns (signature, what) or "" ; accepted reports whether decoding succeeded
func judgeDoc(docBytes []byte, tree any, builtin bool) (sig, what string, accepted bool) {
	var t1 tms20.TileMatrixSet
	var decErr error
	var pan any
	func() {
		defer func() { pan = recover() }()
		decErr = json.Unmarshal(docBytes, &t1)
	}()
	if pan != nil {
		return "decode-panic", fmt.Sprintf("decoding panics: %v", pan), false
	}
	if decErr != nil {
		if builtin {
			return "builtin-rejected", "shipped document is rejected: " + decErr.Error(), false
		}
		return "", "", false
	}
	if reason := mustReject(tree); reason != "" {
		return "accepted-malformed:" + reason, "malformed document accepted (" + reason + ")", true
	}
	var e1 []byte
	var err error
	func() {
		defer func() { pan = recover() }()
		e1, err = json.Marshal(&t1)
	}()
	if pan != nil {
		return "encode-panic", fmt.Sprintf("encoding an accepted document panics: %v", pan), true
	}
	if err != nil {
		return "encode-error", "encoding an accepted document fails: " + err.Error(), true
	}
	var t2 tms20.TileMatrixSet
	func() {
		defer func() { pan = recover() }()
		err = json.Unmarshal(e1, &t2)
	}()
	if pan != nil {
		return "redecode-panic", fmt.Sprintf("decoding the re-encoded document panics: %v", pan), true
	}
	if err != nil {
		return "redecode-error", "the re-encoded document is rejected: " + err.Error(), true
	}
	e2, err := json.Marshal(&t2)
	if err != nil {
		return "reencode-error", err.Error(), true
	}
	if !bytes.Equal(e1, e2) {
		return "unstable-encoding", "encode(decode(encode(decode(doc)))) differs from encode(decode(doc))", true
	}
	if !eqTMS(&t1, &t2) {
		return "roundtrip-value", "decode(encode(x)) != x", true
	}
	if builtin {
		if canon(decodeTreeLoose(e1)) != canon(decodeTreeLoose(docBytes)) {
			return "builtin-not-semantically-equal", "re-encoded shipped document is not semantically equal to the original", true
		}
	}
	return "", "", true
}

// decodeTreeLoose decodes with float64 numbers so that 1.0 and 1 compare equal
func decodeTreeLoose(b []byte) any {
	var v any
	if err := json.Unmarshal(b, &v); err != nil {
		ev.HarnessError("not JSON: %v", err)
	}
	return v
}

func jsonType(v any) string {
	switch v.(type) {
	case nil:
		return "null"
	case string:
		return "string"
	case bool:
		return "boolean"
	case []any:
		return "array"
	case map[string]any:
		return "object"
	}
	return "number"
}

func reasonClass(reason string) string {
	for _, k := range []string{"not positive", "not a whole number", "wrong type", "missing", "non-integer", "empty"} {
		if bytes.Contains([]byte(reason), []byte(k)) {
			return k
		}
	}
	return "other"
}

// reduce keeps n tile matrices (the first, and for n=2 also the last); a matrix
// with variable widths is preferred as the first one so that structure stays covered
func reduce(tree any, n int) any {
	d := clone(tree).(map[string]any)
	l, ok := d["tileMatrices"].([]any)
	if !ok || len(l) <= n {
		return d
	}
	first := l[0]
	for _, t := range l {
		if tm, ok := t.(map[string]any); ok {
			if v, ok := tm["variableMatrixWidths"].([]any); ok && len(v) > 0 {
				first = t
				break
			}
		}
	}
	if n == 1 {
		d["tileMatrices"] = []any{first}
	} else {
		d["tileMatrices"] = []any{first, l[len(l)-1]}
	}
	return d
}

type c16Shard struct {
	States, Trans, Accepted, Rejected int64
	Samples                           []any
	NotExhaustive                     bool
	Depth                             map[string]int
}

type item struct {
	base string
	muts []mutation
}

// explore runs a BFS of the given depth from root; every new state is judged.
// Memory: the visited set keeps a 128-bit digest per canonical document and the frontier keeps only the
// mutation path of a state; the tree is rebuilt from the root when the state is expanded.
func explore(r *ev.Run, sd *c16Shard, seen map[[16]byte]struct{}, base string, root any, depth int, samples *ev.Samples, hashes *[]uint64, restricted bool) int {
	digest := func(key string) [16]byte {
		s := sha256.Sum256([]byte(key))
		var d [16]byte
		copy(d[:], s[:16])
		return d
	}
	level := []item{{base, nil}}
	seen[digest(canon(root))] = struct{}{}
	completed := 0
	// sentinel: the root document, decoded once and kept.  Decoding other documents must not change a value decoded
	// earlier: its encoding is compared with the first one after every judged document.
	var sentinel *tms20.TileMatrixSet
	var sentinelEnc []byte
	resetSentinel := func() {
		sentinel, sentinelEnc = nil, nil
		var t tms20.TileMatrixSet
		defer func() { _ = recover() }()
		if json.Unmarshal([]byte(canon(root)), &t) == nil {
			if e, err := json.Marshal(&t); err == nil {
				sentinel, sentinelEnc = &t, e
			}
		}
	}
	resetSentinel()
	for d := 1; d <= depth; d++ {
		var next []item
		for _, it := range level {
			tree := root
			for _, m := range it.muts {
				tree = apply(tree, m)
			}
			for mi, m := range mutationsOfA(tree, restricted) {
				// the search tree is sharded over worker processes by its level-1 subtrees
				if d == 1 && r.ShardN > 0 && mi%r.ShardN != r.ShardI {
					continue
				}
				if r.Expired() {
					sd.NotExhaustive = true
					return completed
				}
				sd.Trans++
				t2 := apply(tree, m)
				key := canon(t2)
				dg := digest(key)
				if _, dup := seen[dg]; dup {
					continue
				}
				seen[dg] = struct{}{}
				sd.States++
				h := fnv.New64a()
				h.Write([]byte(key))
				*hashes = append(*hashes, h.Sum64())
				muts := append(append([]mutation{}, it.muts...), m)
				sig, what, acc := judgeDoc([]byte(key), t2, false)
				if sig != "" {
					r.Violation(sig, fmt.Sprintf("%s + %d mutation(s) (last: %s at %v): %s", it.base, len(muts), m.Name, m.Path, what), c16Case{Base: it.base, Mutations: muts, Document: key})
				}
				if sentinel != nil {
					var e []byte
					func() {
						defer func() { _ = recover() }()
						e, _ = json.Marshal(sentinel)
					}()
					if !bytes.Equal(e, sentinelEnc) {
						r.Violation("decoded-value-changed-by-later-decode", fmt.Sprintf("%s was decoded and encoded; after decoding another document (%s + %d mutation(s), last: %s at %v) the same value encodes differently", it.base, it.base, len(muts), m.Name, m.Path), c16Case{Base: it.base, Mutations: muts, Document: key})
						resetSentinel()
					}
				}
				if acc {
					sd.Accepted++
				} else {
					sd.Rejected++
				}
				if samples.Want() && sd.States%1501 == 0 {
					samples.Add(map[string]any{"base": it.base, "mutations": muts, "accepted": acc})
				}
				if d < depth {
					next = append(next, item{it.base, muts})
				}
			}
		}
		completed = d
		level = next
	}
	return completed
}

// plan: which (document, reduction, depth) explorations a tier performs
type c16Plan struct {
	Doc        string
	Reduce     int // 0 = full document
	Depth      int
	Restricted bool // mutation alphabet {delete, null, -1, "str"} only
}

func c16Plans(thorough bool) []c16Plan {
	names := append(append([]string{}, builtins...), "SomethingWithBottomLeftAndLatLonAndDoubleHeight")
	var ps []c16Plan
	for _, n := range names {
		ps = append(ps, c16Plan{n, 0, 1, false})
	}
	reps := []string{"NetherlandsRDNewQuad", "SomethingWithBottomLeftAndLatLonAndDoubleHeight", "CDB1GlobalGrid", "LINZAntarticaMapTilegrid", "WorldCRS84Quad"}
	if thorough {
		for _, n := range names {
			ps = append(ps, c16Plan{n, 2, 2, false})
		}
		ps = append(ps, c16Plan{"SomethingWithBottomLeftAndLatLonAndDoubleHeight", 1, 3, true}, c16Plan{"CDB1GlobalGrid", 1, 3, true})
	} else {
		for _, n := range reps {
			ps = append(ps, c16Plan{n, 1, 2, false})
		}
	}
	return ps
}

func runC16() {
	r := ev.New("C16")
	plans := c16Plans(r.Thorough())
	if r.IsShard() {
		sd := c16Shard{Depth: map[string]int{}}
		samples := &ev.Samples{N: 1}
		var hashes []uint64
		for _, p := range plans {
			b, err := os.ReadFile(docPath(p.Doc))
			if err != nil {
				ev.HarnessError("%v", err)
			}
			tree := decodeTree(b)
			root := tree
			name := p.Doc
			if p.Reduce > 0 {
				root = reduce(tree, p.Reduce)
				name = fmt.Sprintf("%s(reduced to %d tile matrices)", p.Doc, p.Reduce)
			} else if r.ShardI == 0 {
				// depth 0: the shipped document itself
				sd.States++
				if sig, what, _ := judgeDoc(b, tree, true); sig != "" {
					r.Violation(sig, p.Doc+": "+what, c16Case{Base: p.Doc, Document: string(b)})
				}
				sd.Accepted++
			}
			done := explore(r, &sd, map[[16]byte]struct{}{}, name, root, p.Depth, samples, &hashes, p.Restricted)
			sd.Depth[fmt.Sprintf("%s/reduce=%d/depth=%d/restricted=%v", p.Doc, p.Reduce, p.Depth, p.Restricted)] = done
		}
		sd.Samples = samples.L
		hb := make([]byte, 8*len(hashes))
		for i, h := range hashes {
			binary.LittleEndian.PutUint64(hb[8*i:], h)
		}
		if err := os.WriteFile(fmt.Sprintf("%s/c16-hashes-%d.bin", os.Getenv("VERIF_WORK"), r.ShardI), hb, 0o644); err != nil {
			ev.HarnessError("%v", err)
		}
		r.FinishShard(sd)
	}
	parts := r.RunShards(runtime.NumCPU())
	var tot c16Shard
	tot.Depth = map[string]int{}
	distinct := map[uint64]struct{}{}
	for i := 0; i < runtime.NumCPU(); i++ {
		hb, err := os.ReadFile(fmt.Sprintf("%s/c16-hashes-%d.bin", os.Getenv("VERIF_WORK"), i))
		if err != nil {
			ev.HarnessError("%v", err)
		}
		for j := 0; j+8 <= len(hb); j += 8 {
			distinct[binary.LittleEndian.Uint64(hb[j:])] = struct{}{}
		}
	}
	for _, raw := range parts {
		var sd c16Shard
		if err := json.Unmarshal(raw, &sd); err != nil {
			ev.HarnessError("bad shard data: %v", err)
		}
		tot.States += sd.States
		tot.Trans += sd.Trans
		tot.Accepted += sd.Accepted
		tot.Rejected += sd.Rejected
		tot.Samples = append(tot.Samples, sd.Samples...)
		tot.NotExhaustive = tot.NotExhaustive || sd.NotExhaustive
		for k, v := range sd.Depth {
			if old, ok := tot.Depth[k]; !ok || v < old {
				tot.Depth[k] = v
			}
		}
	}
	if len(tot.Samples) == 0 {
		tot.Samples = append(tot.Samples, "none")
	}
	if len(tot.Samples) > 6 {
		tot.Samples = tot.Samples[:6]
	}
	r.Assumptions = []string{"must-reject predicate limited to the categories the property names (crs/tileMatrices missing or of wrong JSON type, known field of wrong JSON type, size field <= 0, non-integer id)", "nil and empty slices are identified when comparing decoded values", "states are deduplicated per exploration by canonical JSON (sound: the judged behaviour depends on the document only)"}
	r.Finish(map[string]any{
		"states": int64(len(distinct)) + 15, "states_visited_incl_cross_shard_duplicates": tot.States, "transitions": tot.Trans, "traces_validated_against_impl": 0, "samples": tot.Samples,
		"evaluations": tot.States, "distinct_nontrivial": min(tot.Accepted, int64(len(distinct))),
		"rule":       "explicit-state BFS: states = distinct documents (canonical JSON), transitions = one structural mutation at one node (delete key / drop array element, replace by each of 11 values, 6 alternative crs encodings); depth 1 from each of the 15 full documents; depth 2 (thorough: also depth 3 with the restricted alphabet {delete, null, -1, \"str\"} for two documents) from documents reduced to 1 (thorough 2) tile matrices; every state is decoded/encoded/decoded by the real tms20 code; non-trivial = documents the decoder accepts",
		"exhaustive": !tot.NotExhaustive, "explorations_depth_completed": tot.Depth,
		"accepted": tot.Accepted, "rejected": tot.Rejected,
	})
}
