// tmsmc decides C14 (quadtree validation), C15 (tile addressing) and C16
// (document round trip) by exhaustive enumeration over the shipped tile matrix
// set documents and their bounded mutations.
package main

import (
	"fmt"
	"io"
	"log"
	"os"
)

func main() {
	log.SetOutput(io.Discard)
	if len(os.Args) < 2 {
		fmt.Fprintln(os.Stderr, "usage: tmsmc c14-gen|c14|c15|c16")
		os.Exit(2)
	}
	switch os.Args[1] {
	case "c15":
		runC15()
	case "c16":
		runC16()
	case "c14-gen":
		genC14()
	case "c14":
		runC14()
	default:
		os.Exit(2)
	}
}
