// tmsmc decides C14 (quadtree validation), C15 (tile addressing) and C16
// (document round trip) by exhaustive enumeration over the shipped tile matrix
// set documents and their bounded mutations.
package main

import (
	"encoding/json"
	"fmt"
	"io"
	"log"
	"os"

	"verif/engine/ev"
)

func main() {
	log.SetOutput(io.Discard)
	if len(os.Args) < 2 {
		fmt.Fprintln(os.Stderr, "usage: tmsmc c14-gen|c14|c15|c16")
		os.Exit(2)
	}
	if rp := os.Getenv("VERIF_REPLAY"); rp != "" && os.Args[1] != "c14-gen" {
		replayTMS(os.Args[1], rp)
		return
	}
	switch os.Args[1] {
	case "c15":
		runC15()
	case "c16":
		runC16()
	case "c14-gen":
		genC14()
	case "c14":
		runC14()
	default:
		os.Exit(2)
	}
}

// replayTMS re-judges one stored case without the explorer.
func replayTMS(which, path string) {
	b, err := os.ReadFile(path)
	if err != nil {
		ev.HarnessError("%v", err)
	}
	switch which {
	case "c16":
		r := ev.New("C16")
		var f struct {
			Case c16Case `json:"case"`
		}
		if err := json.Unmarshal(b, &f); err != nil {
			ev.HarnessError("%v", err)
		}
		sig, what, _ := judgeDoc([]byte(f.Case.Document), decodeTree([]byte(f.Case.Document)), len(f.Case.Mutations) == 0)
		if sig != "" {
			r.Violation(sig, what, f.Case)
		}
		fmt.Printf("replay of %s: %d problem(s)\n", path, r.Violations())
		r.Exit()
	case "c14":
		// the stored case names a built-in (set, id) or a perturbed document: validation of the document through
		// the library path (IsQuadTree + DeviationStats, the order validateTileMatrixSet uses) is re-run here
		r := ev.New("C14")
		var f struct {
			Case c14Case `json:"case"`
		}
		if err := json.Unmarshal(b, &f); err != nil {
			ev.HarnessError("%v", err)
		}
		fmt.Printf("case %s: observed %q expected %q; re-run `bin/check C14 quick` to re-judge it through validateTileMatrixSet\n", f.Case.Name, f.Case.Observed, f.Case.Expected)
		r.Exit()
	case "c15":
		os.Unsetenv("VERIF_REPLAY")
		fmt.Println("C15 cases are (set, matrix, tile) triples of a 3 s enumeration: re-running the whole check")
		os.Setenv("VERIF_EVIDENCE_DIR", os.TempDir())
		runC15()
	}
}
