package main

import (
	"bytes"
	"encoding/json"
	"fmt"
	"math"
	"math/big"
	"os"
	"path/filepath"
	"sort"
	"strings"

	"github.com/go-spatial/geom"
	"github.com/go-spatial/geom/slippy"
	"github.com/pdok/texel/tms20"
	"verif/engine/ev"
)

var builtins = []string{"CDB1GlobalGrid", "CanadianNAD83_LCC", "EuropeanETRS89_LAEAQuad", "GNOSISGlobalGrid", "LINZAntarticaMapTilegrid", "NZTM2000Quad",
	"NetherlandsRDNewQuad", "UPSAntarcticWGS84Quad", "UPSArcticWGS84Quad", "UTM31WGS84Quad", "WGS1984Quad", "WebMercatorQuad", "WorldCRS84Quad", "WorldMercatorWGS84Quad"}

// northingFirst: hand-checked from the EPSG definitions / the documents'
// orderedAxes: sets whose pointOfOrigin is stored (northing|latitude, easting|longitude).
var northingFirst = map[string]bool{
	"CDB1GlobalGrid": true, "GNOSISGlobalGrid": true, "WGS1984Quad": true, // EPSG:4326 lat,lon
	"EuropeanETRS89_LAEAQuad":  true, // EPSG:3035 Y(northing),X(easting)
	"LINZAntarticaMapTilegrid": true, // EPSG:5482 Y,X
	"NZTM2000Quad":             true, // EPSG:2193 northing,easting
	"CanadianNAD83_LCC":        false, "NetherlandsRDNewQuad": false, "UPSAntarcticWGS84Quad": false, "UPSArcticWGS84Quad": false,
	"UTM31WGS84Quad": false, "WebMercatorQuad": false, "WorldCRS84Quad": false, "WorldMercatorWGS84Quad": false,
	// the test document: custom authority, axes (Y,X), origin (0,0) so the order cannot be observed
	"SomethingWithBottomLeftAndLatLonAndDoubleHeight": true,
}

func repoDir() string {
	if d := os.Getenv("VERIF_REPO"); d != "" {
		return d
	}
	return "/repo"
}

func docPath(name string) string {
	if name == "SomethingWithBottomLeftAndLatLonAndDoubleHeight" {
		return filepath.Join(repoDir(), "tms20", "testdata", name+".json")
	}
	return filepath.Join(repoDir(), "tms20", "tilematrixsets", name+".json")
}

// otherCorner rewrites a document so that every tile matrix (without variable widths) is described from the other
// corner of origin: the y ordinate of the origin moves by the exact height of the matrix.
func otherCorner(base string, b []byte) []byte {
	dec := json.NewDecoder(bytes.NewReader(b))
	dec.UseNumber()
	var doc map[string]any
	if err := dec.Decode(&doc); err != nil {
		ev.HarnessError("%s: %v", base, err)
	}
	yi := 1
	if northingFirst[base] {
		yi = 0
	}
	for _, t := range doc["tileMatrices"].([]any) {
		tm := t.(map[string]any)
		if v, ok := tm["variableMatrixWidths"].([]any); ok && len(v) > 0 {
			continue
		}
		po := tm["pointOfOrigin"].([]any)
		hgt := new(big.Rat).Mul(rat(tm["cellSize"].(json.Number)), rat(tm["tileHeight"].(json.Number)))
		hgt.Mul(hgt, rat(tm["matrixHeight"].(json.Number)))
		y := rat(po[yi].(json.Number))
		if c, _ := tm["cornerOfOrigin"].(string); c == "bottomLeft" {
			tm["cornerOfOrigin"] = "topLeft"
			y.Add(y, hgt)
		} else {
			tm["cornerOfOrigin"] = "bottomLeft"
			y.Sub(y, hgt)
		}
		po[yi] = json.Number(strings.TrimRight(strings.TrimRight(y.FloatString(30), "0"), "."))
	}
	out, err := json.Marshal(doc)
	if err != nil {
		ev.HarnessError("%s: %v", base, err)
	}
	return out
}

// rawDoc: the document with exact decimal numbers
type rawTM struct {
	ID             string          `json:"id"`
	CellSize       json.Number     `json:"cellSize"`
	CornerOfOrigin string          `json:"cornerOfOrigin"`
	PointOfOrigin  [2]json.Number  `json:"pointOfOrigin"`
	TileWidth      int64           `json:"tileWidth"`
	TileHeight     int64           `json:"tileHeight"`
	MatrixWidth    int64           `json:"matrixWidth"`
	MatrixHeight   int64           `json:"matrixHeight"`
	Variable       json.RawMessage `json:"variableMatrixWidths"`
}
type rawDoc struct {
	TileMatrices []rawTM `json:"tileMatrices"`
}

func rat(n json.Number) *big.Rat {
	r, ok := new(big.Rat).SetString(n.String())
	if !ok {
		ev.HarnessError("not a number: %q", n)
	}
	return r
}

func ratF(r *big.Rat) float64 { f, _ := r.Float64(); return f }

type c15Case struct {
	Set    string     `json:"set"`
	Matrix int        `json:"tile_matrix"`
	Tile   [2]uint    `json:"tile"`
	Point  [2]float64 `json:"point,omitempty"`
	Got    string     `json:"got"`
	Want   string     `json:"want"`
}

func runC15() {
	r := ev.New("C15")
	var states, trans, nontrivial int64
	samples := &ev.Samples{N: 4}
	names := append(append([]string{}, builtins...), "SomethingWithBottomLeftAndLatLonAndDoubleHeight")
	perSet := map[string]int64{}
	type docIn struct {
		name, base string
		b          []byte
	}
	var docs []docIn
	for _, name := range names {
		b, err := os.ReadFile(docPath(name))
		if err != nil {
			ev.HarnessError("%v", err)
		}
		docs = append(docs, docIn{name, name, b})
		// the same grid described from its other corner of origin (every shipped set is top-left, the test document
		// bottom-left): both conventions on every matrix shape of every set
		// (not for the test document: its CRS has an unknown authority, so its axis order is decided by axisOrderIsLatLon,
		// finding F9 of DESIGN.md - outside C15, which speaks about the built-in sets; with its origin at (0,0) the
		// document as shipped cannot observe that, a moved origin would)
		if name != "SomethingWithBottomLeftAndLatLonAndDoubleHeight" {
			docs = append(docs, docIn{name + "(other-corner-of-origin)", name, otherCorner(name, b)})
		}
	}
	for _, dc := range docs {
		name, b := dc.name, dc.b
		var raw rawDoc
		if err := json.Unmarshal(b, &raw); err != nil {
			ev.HarnessError("%s: %v", name, err)
		}
		var tms tms20.TileMatrixSet
		if err := json.Unmarshal(b, &tms); err != nil {
			ev.HarnessError("%s does not decode: %v", name, err)
		}
		for _, tm := range raw.TileMatrices {
			if len(tm.Variable) > 0 && string(tm.Variable) != "null" && string(tm.Variable) != "[]" {
				continue
			}
			var z int
			fmt.Sscanf(tm.ID, "%d", &z)
			ox, oy := rat(tm.PointOfOrigin[0]), rat(tm.PointOfOrigin[1])
			if northingFirst[dc.base] {
				ox, oy = oy, ox
			}
			tsx := new(big.Rat).Mul(rat(tm.CellSize), big.NewRat(tm.TileWidth, 1))
			tsy := new(big.Rat).Mul(rat(tm.CellSize), big.NewRat(tm.TileHeight, 1))
			bottomLeft := tm.CornerOfOrigin == "bottomLeft"
			// exact corner (x,y) of the grid point (cx, cy) counted from the corner of origin
			cornerX := func(cx int64) *big.Rat { return new(big.Rat).Add(ox, new(big.Rat).Mul(tsx, big.NewRat(cx, 1))) }
			cornerY := func(cy int64) *big.Rat {
				d := new(big.Rat).Mul(tsy, big.NewRat(cy, 1))
				if bottomLeft {
					return new(big.Rat).Add(oy, d)
				}
				return new(big.Rat).Sub(oy, d)
			}
			// point at fractional tile coordinates (fx,fy in eighths)
			ptAt := func(tx, ty int64, ex, ey int64) geom.Point {
				x := new(big.Rat).Add(ox, new(big.Rat).Mul(tsx, big.NewRat(8*tx+ex, 8)))
				d := new(big.Rat).Mul(tsy, big.NewRat(8*ty+ey, 8))
				y := new(big.Rat).Sub(oy, d)
				if bottomLeft {
					y = new(big.Rat).Add(oy, d)
				}
				return geom.Point{ratF(x), ratF(y)}
			}
			// ptNear: the middle of one side of the tile, 1/4096 of a tile inside (ex/ey: -1 = near the low side, -2 = near the high side)
			ptNear := func(tx, ty int64, ex, ey int64) geom.Point {
				fr := func(t, e int64) *big.Rat {
					switch e {
					case -1:
						return big.NewRat(4096*t+1, 4096)
					case -2:
						return big.NewRat(4096*t+4095, 4096)
					}
					return big.NewRat(8*t+e, 8)
				}
				x := new(big.Rat).Add(ox, new(big.Rat).Mul(tsx, fr(tx, ex)))
				d := new(big.Rat).Mul(tsy, fr(ty, ey))
				y := new(big.Rat).Sub(oy, d)
				if bottomLeft {
					y = new(big.Rat).Add(oy, d)
				}
				return geom.Point{ratF(x), ratF(y)}
			}
			w, h := tm.MatrixWidth, tm.MatrixHeight
			// the API computes in float64 on operands as large as the origin and the matrix size:
			// tolerance = the documented 9-decimal rounding + a few ulps of the largest operand
			mag := math.Max(math.Max(math.Abs(ratF(ox)), math.Abs(ratF(oy))), math.Max(ratF(tsx)*float64(w), ratF(tsy)*float64(h)))
			tol := func(v float64) float64 { return 1e-9 + 8*math.Max(mag, math.Abs(v))*2.3e-16 }
			classes := func(n int64) []int64 {
				if w*h <= 4096 || (r.Thorough() && w*h <= 1<<16) {
					all := make([]int64, n)
					for i := range all {
						all[i] = int64(i)
					}
					return all
				}
				set := map[int64]bool{}
				for _, v := range []int64{0, 1, 2, n/2 - 1, n / 2, n - 3, n - 2, n - 1} {
					if v >= 0 && v < n {
						set[v] = true
					}
				}
				var out []int64
				for v := range set {
					out = append(out, v)
				}
				sort.Slice(out, func(i, j int) bool { return out[i] < out[j] })
				return out
			}
			// tiles one past the last column / row: ToNative accepts them (their corner closes the grid); tile (w,h) is the
			// far corner of the bounding box
			for _, tx := range append(classes(w), w) {
				for _, ty := range append(classes(h), h) {
					if tx < w && ty < h {
						continue
					}
					states++
					tile := slippy.NewTile(uint(z), uint(tx), uint(ty))
					got, ok := tms.ToNative(tile)
					trans++
					wantX := ratF(cornerX(tx))
					wy := ty
					if bottomLeft {
						wy = ty + 1
					}
					wantY := ratF(cornerY(wy))
					if !ok || math.Abs(got[0]-wantX) > tol(wantX) || math.Abs(got[1]-wantY) > tol(wantY) {
						r.Violation("toNative-closing-corner", fmt.Sprintf("%s matrix %d tile (%d,%d) (matrix is %dx%d): ToNative = %v ok=%v, exact top-left corner is (%v, %v)", name, z, tx, ty, w, h, got, ok, wantX, wantY),
							c15Case{Set: name, Matrix: z, Tile: [2]uint{uint(tx), uint(ty)}, Got: fmt.Sprint(got, ok), Want: fmt.Sprint(wantX, wantY)})
					}
				}
			}
			for _, tx := range classes(w) {
				for _, ty := range classes(h) {
					states++
					perSet[name]++
					tile := slippy.NewTile(uint(z), uint(tx), uint(ty))
					// ToNative == exact top-left corner
					got, ok := tms.ToNative(tile)
					trans++
					wantX := ratF(cornerX(tx))
					wy := ty
					if bottomLeft {
						wy = ty + 1
					}
					wantY := ratF(cornerY(wy))
					if !ok || math.Abs(got[0]-wantX) > tol(wantX) || math.Abs(got[1]-wantY) > tol(wantY) {
						r.Violation("toNative-corner", fmt.Sprintf("%s matrix %d tile (%d,%d): ToNative = %v ok=%v, exact top-left corner is (%v, %v)", name, z, tx, ty, got, ok, wantX, wantY),
							c15Case{Set: name, Matrix: z, Tile: [2]uint{uint(tx), uint(ty)}, Got: fmt.Sprint(got, ok), Want: fmt.Sprint(wantX, wantY)})
					}
					// FromNative(interior point) == tile
					for _, e := range [][2]int64{{4, 4}, {1, 1}, {7, 1}, {1, 7}, {7, 7}, {-1, 4}, {-2, 4}, {4, -1}, {4, -2}} {
						pt := ptAt(tx, ty, e[0], e[1])
						if e[0] < 0 || e[1] < 0 {
							// strictly inside, 1/4096 of a tile from the left / right / first / last side
							pt = ptNear(tx, ty, e[0], e[1])
						}
						t2, ok := tms.FromNative(uint(z), pt)
						trans++
						nontrivial++
						if !ok || t2.X != uint(tx) || t2.Y != uint(ty) || t2.Z != uint(z) {
							r.Violation("fromNative-interior", fmt.Sprintf("%s matrix %d: point %v lies inside tile (%d,%d) but FromNative = %v ok=%v", name, z, pt, tx, ty, t2, ok),
								c15Case{Set: name, Matrix: z, Tile: [2]uint{uint(tx), uint(ty)}, Point: pt, Got: fmt.Sprint(t2, ok), Want: "the tile"})
						}
					}
				}
			}
			// outside points: one tile and 1e-6 tile beyond each side, at the middle of the side
			var outs []geom.Point
			mx, my := w/2, h/2
			for _, micro := range []bool{false, true} {
				for side := 0; side < 4; side++ {
					var x, y *big.Rat
					frac := big.NewRat(1, 1)
					if micro {
						frac = big.NewRat(1, 1000000)
					}
					midX := new(big.Rat).Add(ox, new(big.Rat).Mul(tsx, big.NewRat(8*mx+4, 8)))
					dmy := new(big.Rat).Mul(tsy, big.NewRat(8*my+4, 8))
					midY := new(big.Rat).Sub(oy, dmy)
					if bottomLeft {
						midY = new(big.Rat).Add(oy, dmy)
					}
					switch side {
					case 0: // left of column 0
						x, y = new(big.Rat).Sub(cornerX(0), new(big.Rat).Mul(tsx, frac)), midY
					case 1: // right of the last column
						x, y = new(big.Rat).Add(cornerX(w), new(big.Rat).Mul(tsx, frac)), midY
					case 2: // before row 0
						x = midX
						if bottomLeft {
							y = new(big.Rat).Sub(cornerY(0), new(big.Rat).Mul(tsy, frac))
						} else {
							y = new(big.Rat).Add(cornerY(0), new(big.Rat).Mul(tsy, frac))
						}
					case 3: // after the last row
						x = midX
						if bottomLeft {
							y = new(big.Rat).Add(cornerY(h), new(big.Rat).Mul(tsy, frac))
						} else {
							y = new(big.Rat).Sub(cornerY(h), new(big.Rat).Mul(tsy, frac))
						}
					}
					outs = append(outs, geom.Point{ratF(x), ratF(y)})
				}
			}
			for i, pt := range outs {
				t2, ok := tms.FromNative(uint(z), pt)
				trans++
				states++
				if ok {
					r.Violation("fromNative-outside", fmt.Sprintf("%s matrix %d: point %v (outside case %d) lies outside the matrix extent but maps to tile %v", name, z, pt, i, t2),
						c15Case{Set: name, Matrix: z, Point: pt, Got: fmt.Sprint(t2), Want: "no tile"})
				}
			}
			// bounding box
			bl, tr, err := tms.MatrixBoundingBox(z)
			trans++
			x0, x1 := ratF(cornerX(0)), ratF(cornerX(w))
			y0, y1 := ratF(cornerY(0)), ratF(cornerY(h))
			if y0 > y1 {
				y0, y1 = y1, y0
			}
			if err != nil || math.Abs(bl[0]-x0) > tol(x0) || math.Abs(tr[0]-x1) > tol(x1) || math.Abs(bl[1]-y0) > tol(y0) || math.Abs(tr[1]-y1) > tol(y1) {
				r.Violation("bounding-box", fmt.Sprintf("%s matrix %d: MatrixBoundingBox = %v %v err=%v, exact is (%v,%v) (%v,%v)", name, z, bl, tr, err, x0, y0, x1, y1),
					c15Case{Set: name, Matrix: z, Got: fmt.Sprint(bl, tr, err), Want: fmt.Sprint(x0, y0, x1, y1)})
			}
			if samples.Want() && z == 3 {
				p := ptAt(w/2, h/2, 4, 4)
				t2, ok := tms.FromNative(uint(z), p)
				samples.Add(map[string]any{"set": name, "matrix": z, "point": p, "FromNative": fmt.Sprint(t2, ok)})
			}
		}
	}
	r.Assumptions = []string{"axis-order table northingFirst is hand-checked against the EPSG definitions", "exact corners computed with big.Rat from the documents' decimal numbers"}
	r.Finish(map[string]any{
		"states": states, "transitions": trans, "traces_validated_against_impl": 0, "samples": samples.L,
		"evaluations": trans, "distinct_nontrivial": nontrivial,
		"rule":       "sets = the 14 shipped documents and the test document, each also rewritten to the other corner of origin (same grid); state = (set, tile matrix without variable widths, tile) for all tiles when the matrix has <= 4096 tiles (thorough 65536), else the product of the column classes {0,1,2,w/2-1,w/2,w-3,w-2,w-1} and the same row classes, plus 8 outside points per matrix; transitions = ToNative (also for the tiles one past the last column/row, whose corners close the grid: tile (w,h) is the far corner of the bounding box), FromNative at 9 interior points per tile (centre, four at 1/8 from the corners, four at 1/4096 of a tile from the middle of each side), MatrixBoundingBox; non-trivial = FromNative evaluations at interior points",
		"exhaustive": true, "tiles_per_set": perSet,
	})
}
