package main

import (
	"encoding/json"
	"fmt"
	"math"
	"math/big"
	"os"
	"os/exec"
	"sort"
	"strconv"
	"strings"

	"github.com/go-spatial/geom"
	"github.com/pdok/texel/pointindex"
	"github.com/pdok/texel/tms20"
	"verif/engine/ev"
)

type valIn struct {
	Name string          `json:"name"`
	Doc  json.RawMessage `json:"doc"`
	IDs  []int           `json:"ids"`
}

type valOut struct {
	Name      string `json:"name"`
	DecodeErr string `json:"decode_err,omitempty"`
	Err       string `json:"err,omitempty"`
	Panic     string `json:"panic,omitempty"`
	Accepted  bool   `json:"accepted"`
}

// refQuadtree: the reference predicate on the raw document (exact decimals).
// Returns "" if the set is a true quadtree, else the first broken condition.
func refQuadtree(tree any) string {
	m := tree.(map[string]any)
	list, _ := m["tileMatrices"].([]any)
	if len(list) == 0 {
		return "no tile matrices"
	}
	type tmT struct {
		id             int
		mw, mh, tw, th *big.Rat
		cell, ox, oy   *big.Rat
		corner         string
		variable       bool
	}
	var tms []tmT
	num := func(v any) *big.Rat {
		n, ok := v.(json.Number)
		if !ok {
			return nil
		}
		r, ok := new(big.Rat).SetString(n.String())
		if !ok {
			return nil
		}
		return r
	}
	for _, t := range list {
		tm, ok := t.(map[string]any)
		if !ok {
			return "tile matrix not an object"
		}
		ids, _ := tm["id"].(string)
		id, err := strconv.Atoi(ids)
		if err != nil {
			return "non-integer id"
		}
		x := tmT{id: id, mw: num(tm["matrixWidth"]), mh: num(tm["matrixHeight"]), tw: num(tm["tileWidth"]), th: num(tm["tileHeight"]), cell: num(tm["cellSize"])}
		po, _ := tm["pointOfOrigin"].([]any)
		if len(po) != 2 || x.mw == nil || x.mh == nil || x.tw == nil || x.th == nil || x.cell == nil {
			return "missing field"
		}
		x.ox, x.oy = num(po[0]), num(po[1])
		x.corner, _ = tm["cornerOfOrigin"].(string)
		if x.corner == "" {
			x.corner = "topLeft"
		}
		if v, ok := tm["variableMatrixWidths"].([]any); ok && len(v) > 0 {
			x.variable = true
		}
		tms = append(tms, x)
	}
	sort.Slice(tms, func(i, j int) bool { return tms[i].id < tms[j].id })
	for i, t := range tms {
		if t.id != i {
			return fmt.Sprintf("ids are not consecutive from 0 (position %d has id %d)", i, t.id)
		}
		if t.mw.Cmp(t.mh) != 0 {
			return "matrix not square: " + strconv.Itoa(t.id)
		}
		if t.tw.Cmp(t.th) != 0 {
			return "tiles not square: " + strconv.Itoa(t.id)
		}
		if t.variable {
			return "variable matrix widths: " + strconv.Itoa(t.id)
		}
		if i == 0 {
			continue
		}
		p := tms[i-1]
		if t.ox.Cmp(p.ox) != 0 || t.oy.Cmp(p.oy) != 0 {
			return "origin differs: " + strconv.Itoa(t.id)
		}
		if t.corner != p.corner {
			return "corner of origin differs: " + strconv.Itoa(t.id)
		}
		if t.tw.Cmp(p.tw) != 0 {
			return "tile size changes: " + strconv.Itoa(t.id)
		}
		if t.mw.Cmp(new(big.Rat).Mul(p.mw, big.NewRat(2, 1))) != 0 {
			return "matrix does not double: " + strconv.Itoa(t.id)
		}
		ratio := new(big.Rat).Quo(p.cell, t.cell)
		if ratio.Cmp(big.NewRat(199, 100)) < 0 || ratio.Cmp(big.NewRat(201, 100)) > 0 {
			return "cell size does not halve (beyond tolerance): " + strconv.Itoa(t.id)
		}
	}
	return ""
}

type pert struct {
	Name string
	Doc  any
}

// perturbations of one level of an accepted document; only perturbations that
// really break a condition are produced.
func perturb(tree any, l int, nLevels int) []pert {
	var out []pert
	tmAt := func(d any) map[string]any {
		return d.(map[string]any)["tileMatrices"].([]any)[l].(map[string]any)
	}
	mod := func(name string, f func(tm map[string]any)) {
		d := clone(tree)
		f(tmAt(d))
		out = append(out, pert{fmt.Sprintf("level%d:%s", l, name), d})
	}
	numOf := func(tm map[string]any, k string) float64 { f, _ := tm[k].(json.Number).Float64(); return f }
	setNum := func(tm map[string]any, k string, v float64) {
		tm[k] = json.Number(strconv.FormatFloat(v, 'g', -1, 64))
	}
	mod("matrixWidth+1", func(tm map[string]any) { setNum(tm, "matrixWidth", numOf(tm, "matrixWidth")+1) })
	mod("matrixHeight+1", func(tm map[string]any) { setNum(tm, "matrixHeight", numOf(tm, "matrixHeight")+1) })
	if l > 0 {
		mod("matrixWidth-1", func(tm map[string]any) { setNum(tm, "matrixWidth", numOf(tm, "matrixWidth")-1) })
		mod("matrixHeight-1", func(tm map[string]any) { setNum(tm, "matrixHeight", numOf(tm, "matrixHeight")-1) })
	}
	// both sides off by one (the matrix stays square); alone, and with every deeper level doubling on from the broken one
	for _, delta := range []float64{1, -1} {
		delta := delta
		if l == 0 && delta < 0 {
			continue
		}
		mod(fmt.Sprintf("matrix-both%+g", delta), func(tm map[string]any) {
			setNum(tm, "matrixWidth", numOf(tm, "matrixWidth")+delta)
			setNum(tm, "matrixHeight", numOf(tm, "matrixHeight")+delta)
		})
		if l > 0 && l < nLevels-1 { // from level 0 on, the result would be a (consistent) quadtree with a larger root
			d := clone(tree)
			lst := d.(map[string]any)["tileMatrices"].([]any)
			w := numOf(lst[l].(map[string]any), "matrixWidth") + delta
			for j := l; j < len(lst); j++ {
				setNum(lst[j].(map[string]any), "matrixWidth", w)
				setNum(lst[j].(map[string]any), "matrixHeight", w)
				w *= 2
			}
			out = append(out, pert{fmt.Sprintf("level%d:matrix-both%+g-deeper-levels-doubling-on", l, delta), d})
		}
	}
	mod("matrix-both-x2", func(tm map[string]any) {
		setNum(tm, "matrixWidth", numOf(tm, "matrixWidth")*2)
		setNum(tm, "matrixHeight", numOf(tm, "matrixHeight")*2)
	})
	mod("tileWidth-x2", func(tm map[string]any) { setNum(tm, "tileWidth", numOf(tm, "tileWidth")*2) })
	mod("tileHeight-x2", func(tm map[string]any) { setNum(tm, "tileHeight", numOf(tm, "tileHeight")*2) })
	mod("tile-both-x2", func(tm map[string]any) {
		setNum(tm, "tileWidth", numOf(tm, "tileWidth")*2)
		setNum(tm, "tileHeight", numOf(tm, "tileHeight")*2)
	})
	for ax := 0; ax < 2; ax++ {
		for _, delta := range []float64{1, -1, 0} {
			ax, delta := ax, delta
			name := fmt.Sprintf("origin[%d]%+g", ax, delta)
			if delta == 0 {
				name = fmt.Sprintf("origin[%d]+2ulp", ax)
			}
			mod(name, func(tm map[string]any) {
				po := tm["pointOfOrigin"].([]any)
				v, _ := po[ax].(json.Number).Float64()
				nv := v + delta
				if delta == 0 {
					nv = math.Nextafter(math.Nextafter(v, math.Inf(1)), math.Inf(1))
				}
				po[ax] = json.Number(strconv.FormatFloat(nv, 'g', -1, 64))
			})
		}
	}
	mod("corner-flipped", func(tm map[string]any) {
		if c, _ := tm["cornerOfOrigin"].(string); c == "bottomLeft" {
			tm["cornerOfOrigin"] = "topLeft"
		} else {
			tm["cornerOfOrigin"] = "bottomLeft"
		}
	})
	for _, f := range []float64{1.006, 0.994, 1.02, 0.98, 1.5, 4} {
		f := f
		mod(fmt.Sprintf("cellSize-x%g", f), func(tm map[string]any) { setNum(tm, "cellSize", numOf(tm, "cellSize")*f) })
	}
	mod("variable-widths", func(tm map[string]any) {
		tm["variableMatrixWidths"] = []any{map[string]any{"coalesce": json.Number("2"), "minTileRow": json.Number("0"), "maxTileRow": json.Number("0")}}
	})
	if l < nLevels-1 { // removing the last level leaves a valid quadtree
		d := clone(tree).(map[string]any)
		lst := d["tileMatrices"].([]any)
		d["tileMatrices"] = append(append([]any{}, lst[:l]...), lst[l+1:]...)
		out = append(out, pert{fmt.Sprintf("level%d:removed", l), d})
	}
	if l == 0 {
		d := clone(tree).(map[string]any)
		for _, t := range d["tileMatrices"].([]any) {
			tm := t.(map[string]any)
			id, _ := strconv.Atoi(tm["id"].(string))
			tm["id"] = strconv.Itoa(id + 1)
		}
		out = append(out, pert{"ids-shifted-to-start-at-1", d})
	}
	return out
}

func loadTree(name string) (any, []byte) {
	b, err := os.ReadFile(docPath(name))
	if err != nil {
		ev.HarnessError("%v", err)
	}
	return decodeTree(b), b
}

func maxID(tree any) int {
	m := -1
	for _, t := range tree.(map[string]any)["tileMatrices"].([]any) {
		id, _ := strconv.Atoi(t.(map[string]any)["id"].(string))
		if id > m {
			m = id
		}
	}
	return m
}

// genC14 writes the cases for the in-package validateTileMatrixSet test.
func genC14() {
	var cases []valIn
	for _, name := range builtins {
		tree, raw := loadTree(name)
		n := len(tree.(map[string]any)["tileMatrices"].([]any))
		for _, t := range tree.(map[string]any)["tileMatrices"].([]any) {
			z, err := strconv.Atoi(t.(map[string]any)["id"].(string))
			if err != nil {
				ev.HarnessError("%s: id %v", name, t.(map[string]any)["id"])
			}
			cases = append(cases, valIn{Name: fmt.Sprintf("builtin|%s|%d", name, z), Doc: raw, IDs: []int{z}})
		}
		if refQuadtree(tree) != "" {
			continue
		}
		for l := 0; l < n; l++ {
			for _, p := range perturb(tree, l, n) {
				if refQuadtree(p.Doc) == "" {
					ev.HarnessError("perturbation %s of %s does not break the reference predicate", p.Name, name)
				}
				b, _ := json.Marshal(p.Doc)
				cases = append(cases, valIn{Name: fmt.Sprintf("perturbed|%s|%s", name, p.Name), Doc: b, IDs: []int{maxID(p.Doc)}})
			}
		}
	}
	b, _ := json.Marshal(cases)
	if err := os.WriteFile(os.Getenv("VERIF_C14_IN"), b, 0o644); err != nil {
		ev.HarnessError("%v", err)
	}
	fmt.Fprintf(os.Stderr, "  c14-gen: %d cases\n", len(cases))
}

type c14Case struct {
	Name     string `json:"name"`
	Observed string `json:"observed"`
	Expected string `json:"expected"`
	Document string `json:"document,omitempty"`
}

func outcome(o valOut) string {
	switch {
	case o.Panic != "":
		return "panicked"
	case o.DecodeErr != "" || o.Err != "":
		return "rejected"
	case o.Accepted:
		return "accepted"
	}
	return "unknown"
}

func runC14() {
	r := ev.New("C14")
	var cases []valIn
	var outs []valOut
	b, err := os.ReadFile(os.Getenv("VERIF_C14_IN"))
	if err != nil {
		ev.HarnessError("%v", err)
	}
	if err := json.Unmarshal(b, &cases); err != nil {
		ev.HarnessError("%v", err)
	}
	b, err = os.ReadFile(os.Getenv("VERIF_C14_OUT"))
	if err != nil {
		ev.HarnessError("in-package validation results missing: %v", err)
	}
	if err := json.Unmarshal(b, &outs); err != nil || len(outs) != len(cases) {
		ev.HarnessError("in-package validation results unreadable or incomplete (%d of %d): %v", len(outs), len(cases), err)
	}
	var states, trans, nontrivial int64
	outcomes := map[string]int{}
	samples := &ev.Samples{N: 4}
	texel := os.Getenv("VERIF_TEXEL_BIN")
	for i, c := range cases {
		o := outs[i]
		parts := strings.Split(c.Name, "|")
		states++
		trans++
		obs := outcome(o)
		outcomes[parts[0]+":"+obs]++
		tree := decodeTree(c.Doc)
		want := "rejected"
		reason := refQuadtree(tree)
		if reason == "" {
			want = "accepted"
		}
		switch parts[0] {
		case "builtin":
			set, z := parts[1], c.IDs[0]
			if obs != want {
				sig := "builtin-" + obs + "-expected-" + want
				if obs == "panicked" {
					sig = "validation-panics:" + firstWords(o.Panic)
				}
				r.Violation(sig, fmt.Sprintf("%s deepest id %d: validateTileMatrixSet %s (%s%s%s), reference quadtree predicate says %s (%s)", set, z, obs, o.Err, o.DecodeErr, o.Panic, want, reason),
					c14Case{Name: c.Name, Observed: obs, Expected: want})
			}
			// the same through the real binary
			if texel != "" {
				cmd := exec.Command(texel, "-s", "/nonexistent/source.gpkg", "-t", os.Getenv("VERIF_WORK")+"/never.gpkg", "-tms", set, "-z", fmt.Sprintf("[%d]", z))
				outb, _ := cmd.CombinedOutput()
				trans++
				bobs := "rejected"
				switch {
				case strings.Contains(string(outb), "panic:") || strings.Contains(string(outb), "goroutine "):
					bobs = "panicked"
				case strings.Contains(string(outb), "error opening source GeoPackage"):
					bobs = "accepted"
				}
				if bobs != obs {
					r.Violation("binary-differs-from-in-package:"+bobs, fmt.Sprintf("%s deepest id %d: the texel binary %s, validateTileMatrixSet called in-package %s", set, z, bobs, obs),
						c14Case{Name: c.Name, Observed: bobs, Expected: obs})
				}
			}
			// library level
			var tms tms20.TileMatrixSet
			if err := json.Unmarshal(c.Doc, &tms); err != nil {
				ev.HarnessError("%s does not decode: %v", set, err)
			}
			var qerr error
			var qpan any
			func() {
				defer func() { qpan = recover() }()
				qerr = pointindex.IsQuadTree(tms)
			}()
			trans++
			if qpan != nil || (qerr == nil) != (want == "accepted") {
				r.Violation("isQuadTree-differs-from-reference", fmt.Sprintf("%s: IsQuadTree err=%v panic=%v, reference says %s (%s)", set, qerr, qpan, want, reason), c14Case{Name: c.Name, Observed: fmt.Sprint(qerr, qpan), Expected: want})
			}
			if want == "accepted" && obs == "accepted" {
				nontrivial++
				if what := pixelSizeCheck(tms, tree, z); what != "" {
					r.Violation(fmt.Sprintf("pixel-size:%s:id%d", set, z), fmt.Sprintf("%s id %d: %s", set, z, what), c14Case{Name: c.Name, Observed: what, Expected: "cellSize/16"})
				}
				trans++
			}
			if samples.Want() && z == 1 {
				samples.Add(map[string]any{"set": set, "deepest_id": z, "observed": obs, "reference": want, "reason": reason})
			}
		case "perturbed":
			nontrivial++
			if obs != "rejected" {
				sig := "perturbed-" + obs + ":" + pertClass(parts[2])
				r.Violation(sig, fmt.Sprintf("%s with %s: validateTileMatrixSet %s (%s), must be rejected with an error because: %s", parts[1], parts[2], obs, o.Panic, reason),
					c14Case{Name: c.Name, Observed: obs, Expected: "rejected", Document: string(c.Doc)})
			}
			// library level: IsQuadTree alone must reject every perturbation that leaves ids starting at 0
			var tms tms20.TileMatrixSet
			if err := json.Unmarshal(c.Doc, &tms); err == nil {
				var qerr error
				var qpan any
				func() {
					defer func() { qpan = recover() }()
					qerr = pointindex.IsQuadTree(tms)
				}()
				trans++
				startsAtZero := true
				if _, ok := tms.TileMatrices[0]; !ok {
					startsAtZero = false
				}
				if qpan != nil || (qerr == nil && startsAtZero) {
					r.Violation("isQuadTree-accepts-perturbed:"+pertClass(parts[2]), fmt.Sprintf("%s with %s: IsQuadTree err=%v panic=%v", parts[1], parts[2], qerr, qpan), c14Case{Name: c.Name, Observed: fmt.Sprint(qerr, qpan), Expected: "error", Document: string(c.Doc)})
				}
			}
			if samples.Want() && strings.Contains(parts[2], "level3:cellSize-x1.02") {
				samples.Add(map[string]any{"set": parts[1], "perturbation": parts[2], "observed": obs, "error": o.Err})
			}
		}
	}
	// struct-level perturbation that JSON cannot express: id string != key
	for _, name := range builtins {
		tree, raw := loadTree(name)
		if refQuadtree(tree) != "" {
			continue
		}
		var tms tms20.TileMatrixSet
		_ = json.Unmarshal(raw, &tms)
		for l := range tms.TileMatrices {
			cp := tms
			cp.TileMatrices = map[int]tms20.TileMatrix{}
			for k, v := range tms.TileMatrices {
				cp.TileMatrices[k] = v
			}
			tm := cp.TileMatrices[l]
			tm.ID = strconv.Itoa(l + 1)
			cp.TileMatrices[l] = tm
			states++
			trans++
			nontrivial++
			if err := pointindex.IsQuadTree(cp); err == nil {
				r.Violation("isQuadTree-accepts-perturbed:id-string", fmt.Sprintf("%s: tile matrix stored under key %d carries id %q and is accepted", name, l, tm.ID), c14Case{Name: name, Observed: "accepted", Expected: "error"})
			}
		}
	}
	if len(samples.L) == 0 {
		samples.Add("none")
	}
	r.Assumptions = []string{"reference quadtree predicate evaluated with exact decimals on the raw documents; cell-size tolerance 1.99..2.01 as stated by the tool", "pixel size observed through FromTileMatrixSet + InsertPoint + SnapClosestPoints with tolerance 2e-10 + 4 ulp of the coordinate"}
	r.Finish(map[string]any{
		"states": states, "transitions": trans, "traces_validated_against_impl": 0, "samples": samples.L,
		"evaluations": trans, "distinct_nontrivial": nontrivial, "outcomes": outcomes,
		"rule":       "state = (built-in set, deepest id) for all 14 sets and all their ids, plus every single-level perturbation (matrix width/height +-1 (one side; both sides; both sides with the deeper levels doubling on) and x2, tile width/height, tile size, origin +-1 and +2ulp per axis, corner flipped, cell size x1.006/0.994 (just beyond the tolerance)/1.02/0.98/1.5/4, variable widths, level removed, ids shifted, id string != key) of every accepted set at every level; each state is run through the real validateTileMatrixSet (in-package), the real binary (built-ins) and IsQuadTree; accepted built-ins additionally through the pixel-size observation; non-trivial = perturbed sets and accepted built-in (set, id) pairs",
		"exhaustive": true,
	})
}

func firstWords(s string) string {
	f := strings.Fields(s)
	if len(f) > 4 {
		f = f[:4]
	}
	return strings.Join(f, "-")
}

func pertClass(p string) string {
	if i := strings.Index(p, ":"); i >= 0 {
		return p[i+1:]
	}
	return p
}

// pixelSizeCheck observes the pixel size the index uses for id z.
func pixelSizeCheck(tms tms20.TileMatrixSet, tree any, z int) string {
	var cell float64
	var tw float64
	for _, t := range tree.(map[string]any)["tileMatrices"].([]any) {
		tm := t.(map[string]any)
		if tm["id"] == strconv.Itoa(z) {
			cell, _ = tm["cellSize"].(json.Number).Float64()
			tw, _ = tm["tileWidth"].(json.Number).Float64()
		}
	}
	want := cell / 16
	var what string
	func() {
		defer func() {
			if p := recover(); p != nil {
				what = fmt.Sprintf("observation panicked: %v", p)
			}
		}()
		ix, err := pointindex.FromTileMatrixSet(tms, z)
		if err != nil {
			what = "FromTileMatrixSet: " + err.Error()
			return
		}
		bl, _, err := tms.MatrixBoundingBox(0)
		if err != nil {
			what = err.Error()
			return
		}
		p0 := geom.Point{bl[0] + 0.5*want, bl[1] + 0.5*want}
		p1 := geom.Point{bl[0] + 1.5*want, bl[1] + 1.5*want}
		if err := ix.InsertPoint(p0); err != nil {
			what = err.Error()
			return
		}
		if err := ix.InsertPoint(p1); err != nil {
			what = err.Error()
			return
		}
		level := uint(z) + uint(math.Log2(tw)) + 4
		got := ix.SnapClosestPoints(geom.Line{p0, p1}, map[uint]any{level: struct{}{}}, 0)[level]
		if len(got) != 2 {
			what = fmt.Sprintf("two points one pixel apart diagonally snap to %v", got)
			return
		}
		tol := 2e-10 + 4*math.Abs(bl[0])*2.3e-16 + 4*math.Abs(bl[1])*2.3e-16
		dx, dy := got[1][0]-got[0][0], got[1][1]-got[0][1]
		if math.Abs(dx-want) > tol || math.Abs(dy-want) > tol {
			what = fmt.Sprintf("observed pixel size (%v, %v), cell size / 16 = %v (difference %.3g, tolerance %.3g)", dx, dy, want, math.Max(math.Abs(dx-want), math.Abs(dy-want)), tol)
			return
		}
		// centres are half a pixel from the corner
		if math.Abs(got[0][0]-(bl[0]+0.5*want)) > tol || math.Abs(got[0][1]-(bl[1]+0.5*want)) > tol {
			what = fmt.Sprintf("first pixel centre %v is not half a pixel (%v) from the extent corner %v", got[0], want/2, bl)
		}
	}()
	return what
}
