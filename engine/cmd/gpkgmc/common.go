// gpkgmc decides C12 (target GeoPackage writer, library level) and C13 (the real
// texel binary end to end) by running every case of a stated finite lattice on
// real SQLite files and comparing the result with a reference computed from
// the inputs.  libspatialite is not installed: a "spatialite" database/sql
// driver backed by plain SQLite with pure-Go ST_* functions is registered by
// package spl (the same stub is compiled into the texel binary by overlay).
package main

import (
	"database/sql"
	"fmt"
	"io"
	"log"
	"os"
	"strings"

	"github.com/go-spatial/geom"
	ggpkg "github.com/go-spatial/geom/encoding/gpkg"
	_ "verif/engine/spl"
)

const srsRD = 28992

// rdLocalSRS: the same reference system registered under a file-local srs_id that differs from the organisation's code
var rdLocalSRS = ggpkg.SpatialReferenceSystem{Name: "Amersfoort / RD New (local id)", ID: 100001, Organization: "EPSG", OrganizationCoordsysID: srsRD, Definition: "PROJCS[\"Amersfoort / RD New\"]", Description: "verif local"}

var rdSRS = ggpkg.SpatialReferenceSystem{Name: "Amersfoort / RD New", ID: srsRD, Organization: "EPSG", OrganizationCoordsysID: srsRD, Definition: "PROJCS[\"Amersfoort / RD New\"]", Description: "verif"}

type colDef struct {
	Name, Type string
	NotNull    bool
	PK         bool
}

type tableDef struct {
	Name  string
	Cols  []colDef // including the geometry column, in table order
	GCol  string
	GType ggpkg.GeometryType
}

func (t tableDef) createSQL() string {
	var parts []string
	for _, c := range t.Cols {
		p := c.Name + " " + c.Type
		if c.NotNull {
			p += " NOT NULL"
		}
		if c.PK {
			p += " PRIMARY KEY"
		}
		parts = append(parts, p)
	}
	return fmt.Sprintf(`CREATE TABLE "%s" (%s);`, t.Name, strings.Join(parts, ", "))
}

type row struct {
	Attrs []interface{} // non-geometry columns in table order
	Geom  geom.Geometry
}

// createSource writes a GeoPackage with the given tables and rows using the
// go-spatial gpkg package and plain SQL (never texel code).
func createSource(path string, srs ggpkg.SpatialReferenceSystem, tables []tableDef, rows map[string][]row) error {
	_ = os.Remove(path)
	h, err := ggpkg.Open(path)
	if err != nil {
		return err
	}
	defer h.Close()
	if err := h.UpdateSRS(srs); err != nil {
		return err
	}
	for _, t := range tables {
		if _, err := h.Exec(t.createSQL()); err != nil {
			return fmt.Errorf("%s: %w", t.createSQL(), err)
		}
		if err := h.AddGeometryTable(ggpkg.TableDescription{Name: t.Name, ShortName: t.Name, Description: t.Name, GeometryField: t.GCol, GeometryType: t.GType, SRS: int32(srs.ID), Z: ggpkg.Prohibited, M: ggpkg.Prohibited}); err != nil {
			return err
		}
		var names, qs []string
		for _, c := range t.Cols {
			if c.Name != t.GCol {
				names = append(names, c.Name)
				qs = append(qs, "?")
			}
		}
		names = append(names, t.GCol)
		qs = append(qs, "?")
		ins := fmt.Sprintf(`INSERT INTO "%s"(%s) VALUES(%s)`, t.Name, strings.Join(names, ","), strings.Join(qs, ","))
		var ext *geom.Extent
		for _, r := range rows[t.Name] {
			sb, err := ggpkg.NewBinary(int32(srs.ID), r.Geom)
			if err != nil {
				return err
			}
			args := append(append([]interface{}{}, r.Attrs...), sb)
			if _, err := h.Exec(ins, args...); err != nil {
				return fmt.Errorf("%s: %w", ins, err)
			}
			if e, err := geom.NewExtentFromGeometry(r.Geom); err == nil {
				if ext == nil {
					ext = e
				} else {
					ext.Add(e)
				}
			}
		}
		if ext != nil {
			_ = h.UpdateGeometryExtent(t.Name, ext)
		}
	}
	return nil
}

// readBack is everything the oracles look at in a written GeoPackage table.
type readBack struct {
	Exists  bool
	Columns []colDef
	Rows    []row
	RTree   map[int64][4]float64 // id -> minx,maxx,miny,maxy
	Extent  *[4]float64          // minx,miny,maxx,maxy from gpkg_contents; nil = NULL
	GeomCol string
	GType   string
	SRSID   int
	SRS     ggpkg.SpatialReferenceSystem
}

func openDB(path string) (*sql.DB, error) { return sql.Open("spatialite", path) }

func tableNames(db *sql.DB) ([]string, error) {
	rows, err := db.Query(`SELECT name FROM sqlite_master WHERE type='table' ORDER BY name`)
	if err != nil {
		return nil, err
	}
	defer rows.Close()
	var out []string
	for rows.Next() {
		var n string
		if err := rows.Scan(&n); err != nil {
			return nil, err
		}
		out = append(out, n)
	}
	return out, nil
}

func readTable(db *sql.DB, name string) (*readBack, error) {
	rb := &readBack{RTree: map[int64][4]float64{}}
	var cnt int
	if err := db.QueryRow(`SELECT count(*) FROM sqlite_master WHERE type='table' AND name=?`, name).Scan(&cnt); err != nil {
		return nil, err
	}
	if cnt == 0 {
		return rb, nil
	}
	rb.Exists = true
	var srsid sql.NullInt64
	var gt sql.NullString
	if err := db.QueryRow(`SELECT column_name, geometry_type_name, srs_id FROM gpkg_geometry_columns WHERE table_name=?`, name).Scan(&rb.GeomCol, &gt, &srsid); err != nil {
		return nil, fmt.Errorf("gpkg_geometry_columns has no row for %s: %w", name, err)
	}
	rb.GType, rb.SRSID = gt.String, int(srsid.Int64)
	var desc sql.NullString
	_ = db.QueryRow(`SELECT srs_name, srs_id, organization, organization_coordsys_id, definition, description FROM gpkg_spatial_ref_sys WHERE srs_id=?`, rb.SRSID).
		Scan(&rb.SRS.Name, &rb.SRS.ID, &rb.SRS.Organization, &rb.SRS.OrganizationCoordsysID, &rb.SRS.Definition, &desc)
	rb.SRS.Description = desc.String
	ci, err := db.Query(fmt.Sprintf(`PRAGMA table_info('%s')`, name))
	if err != nil {
		return nil, err
	}
	for ci.Next() {
		var cid, notnull, pk int
		var cname, ctype string
		var dflt interface{}
		if err := ci.Scan(&cid, &cname, &ctype, &notnull, &dflt, &pk); err != nil {
			return nil, err
		}
		rb.Columns = append(rb.Columns, colDef{Name: cname, Type: ctype, NotNull: notnull == 1, PK: pk == 1})
	}
	ci.Close()
	var minx, miny, maxx, maxy sql.NullFloat64
	if err := db.QueryRow(`SELECT min_x, min_y, max_x, max_y FROM gpkg_contents WHERE table_name=?`, name).Scan(&minx, &miny, &maxx, &maxy); err != nil {
		return nil, fmt.Errorf("gpkg_contents has no row for %s: %w", name, err)
	}
	if minx.Valid && miny.Valid && maxx.Valid && maxy.Valid {
		rb.Extent = &[4]float64{minx.Float64, miny.Float64, maxx.Float64, maxy.Float64}
	}
	var names []string
	for _, c := range rb.Columns {
		if c.Name != rb.GeomCol {
			names = append(names, c.Name)
		}
	}
	names = append(names, rb.GeomCol)
	q, err := db.Query(fmt.Sprintf(`SELECT %s FROM "%s" ORDER BY rowid`, strings.Join(names, ","), name))
	if err != nil {
		return nil, err
	}
	for q.Next() {
		vals := make([]interface{}, len(names))
		ptrs := make([]interface{}, len(names))
		for i := range vals {
			ptrs[i] = &vals[i]
		}
		if err := q.Scan(ptrs...); err != nil {
			return nil, err
		}
		r := row{}
		for i := 0; i < len(vals)-1; i++ {
			if b, ok := vals[i].([]byte); ok {
				vals[i] = string(b)
			}
			r.Attrs = append(r.Attrs, vals[i])
		}
		if b, ok := vals[len(vals)-1].([]byte); ok {
			sb, err := ggpkg.DecodeGeometry(b)
			if err != nil {
				return nil, fmt.Errorf("geometry of row %d does not decode: %w", len(rb.Rows), err)
			}
			r.Geom = sb.Geometry
		}
		rb.Rows = append(rb.Rows, r)
	}
	q.Close()
	rt, err := db.Query(fmt.Sprintf(`SELECT id, minx, maxx, miny, maxy FROM "rtree_%s_%s"`, name, rb.GeomCol))
	if err != nil {
		return nil, fmt.Errorf("spatial index missing: %w", err)
	}
	for rt.Next() {
		var id int64
		var b [4]float64
		if err := rt.Scan(&id, &b[0], &b[1], &b[2], &b[3]); err != nil {
			return nil, err
		}
		rb.RTree[id] = b
	}
	rt.Close()
	return rb, nil
}

func isEmptyGeom(g geom.Geometry) bool {
	switch v := g.(type) {
	case nil:
		return true
	case geom.Polygon:
		return len(v) == 0
	case geom.MultiPolygon:
		return len(v) == 0
	case geom.LineString:
		return len(v) == 0
	}
	return false
}

func main() {
	log.SetOutput(io.Discard)
	if len(os.Args) < 2 {
		fmt.Fprintln(os.Stderr, "usage: gpkgmc c12|c13")
		os.Exit(2)
	}
	switch os.Args[1] {
	case "c12":
		runC12()
	case "c13":
		runC13()
	case "mksource":
		// a source GeoPackage for the free-running -race pass of C11 over the real gpkg source/targets
		src := c13Source{Tables: []string{"parcels", "regions", "pois"}, Polys: []string{"plain", "pinch", "small", "hole", "cw", "plain", "tiny"}, Multis: []string{"m-two", "m-mixed"}, Points: 4}
		if err := src.build(os.Args[2]); err != nil {
			fmt.Fprintln(os.Stderr, err)
			os.Exit(2)
		}
	default:
		os.Exit(2)
	}
}
