package main

func runC13() {}
