package main

import (
	"bytes"
	"encoding/json"
	"fmt"
	"os"
	"os/exec"
	"path/filepath"
	"runtime"
	"sort"
	"strings"

	"github.com/go-spatial/geom"
	ggpkg "github.com/go-spatial/geom/encoding/gpkg"
	"github.com/pdok/texel/snap"
	"github.com/pdok/texel/tms20"
	"verif/engine/ev"
)

// ---- feature alphabet (NetherlandsRDNewQuad; pixel 6.72 at id 5, 0.84 at id 8, 0.21 at id 10) ----

func sq(x, y, s float64) [][2]float64 {
	return [][2]float64{{x, y}, {x + s, y}, {x + s, y + s}, {x, y + s}}
}

func polyKind(kind string, i int) geom.Polygon {
	ox, oy := 155000.0+300*float64(i), 463000.0
	switch kind {
	case "plain":
		return geom.Polygon{sq(ox+3.1, oy+2.2, 100.3)}
	case "hole":
		h := sq(ox+40.2, oy+40.7, 30.1)
		return geom.Polygon{sq(ox+1.3, oy+0.7, 120.9), {h[0], h[3], h[2], h[1]}}
	case "cw": // shell given clockwise
		s := sq(ox+5.5, oy+7.5, 80.25)
		return geom.Polygon{{s[0], s[3], s[2], s[1]}}
	case "pinch": // two 60 m squares joined by a 0.5 m wide neck: pinches off at id 5
		return geom.Polygon{{{ox, oy}, {ox + 60, oy}, {ox + 60, oy + 30}, {ox + 80, oy + 30}, {ox + 80, oy}, {ox + 140, oy}, {ox + 140, oy + 60}, {ox + 80, oy + 60}, {ox + 80, oy + 30.5}, {ox + 60, oy + 30.5}, {ox + 60, oy + 60}, {ox, oy + 60}}}
	case "small": // collapses at id 5, survives at ids 8 and 10
		return geom.Polygon{sq(ox+10.1, oy+10.1, 2.4)}
	case "tiny": // collapses at every id of the lattice
		return geom.Polygon{sq(ox+10.01, oy+10.01, 0.04)}
	case "outside": // one vertex left of the RD extent
		return geom.Polygon{{{ox, oy}, {ox + 50, oy}, {-300000, oy + 25}}}
	}
	panic("unknown kind " + kind)
}

func multiKind(kind string, i int) geom.MultiPolygon {
	switch kind {
	case "m-two":
		return geom.MultiPolygon{polyKind("plain", 10+i), polyKind("hole", 20+i)}
	case "m-mixed": // one part survives everywhere, one collapses at id 5, one everywhere
		return geom.MultiPolygon{polyKind("plain", 30+i), polyKind("small", 31+i), polyKind("tiny", 32+i)}
	case "m-collapse": // nothing survives at id 5
		return geom.MultiPolygon{polyKind("small", 40+i), polyKind("tiny", 41+i)}
	case "m-outside":
		return geom.MultiPolygon{polyKind("plain", 50+i), polyKind("outside", 51+i)}
	}
	panic("unknown kind " + kind)
}

type c13Source struct {
	Polys  []string `json:"polygon_table"`      // kinds, table "parcels" (POLYGON, geometry column in the middle)
	Multis []string `json:"multipolygon_table"` // kinds, table "regions" (MULTIPOLYGON)
	Points int      `json:"point_rows"`         // table "pois" (POINT)
	Lines  int      `json:"line_rows"`          // table "roads" (LINESTRING)
	Tables []string `json:"tables"`             // which tables exist, in creation order
	// KeyStyle "bigint-desc": every table's key is declared BIGINT (no alias of the rowid) and the rows are stored in
	// descending key order: source order is the order of storage, not the order of the keys
	KeyStyle string `json:"key_style,omitempty"`
}

type c13Case struct {
	Name      string `json:"sub_lattice"`
	TMS       string `json:"tms"`
	IDs       []int  `json:"ids"`
	Page      int    `json:"page_size"` // 0 = default (flag omitted)
	Keep      bool   `json:"keep"`
	Ignore    bool   `json:"ignore_outside_grid"`
	Reverse   bool   `json:"reverse"`
	Overwrite bool   `json:"overwrite"`
	Existing  bool   `json:"pre_existing_targets"`
	// ExistingIDs: with Existing, only the targets of these ids exist beforehand (nil = all requested ids)
	ExistingIDs []int     `json:"pre_existing_ids,omitempty"`
	Path        string    `json:"target_path"`
	Src         c13Source `json:"source"`
	UseEnv      bool      `json:"flags_via_environment"`
	// IDSpelling: the id list as written on the command line when it is not the compact JSON of IDs
	IDSpelling string `json:"ids_as_written,omitempty"`
	// ExplicitFalse: options that are off are not left out but given with the value false (-pl=false / KEEPPOINTSANDLINES=false)
	ExplicitFalse bool `json:"off_flags_given_as_false,omitempty"`
}

func (s c13Source) key() string { b, _ := json.Marshal(s); return string(b) }

func (s c13Source) hasOutside() bool {
	for _, k := range s.Polys {
		if k == "outside" {
			return true
		}
	}
	for _, k := range s.Multis {
		if k == "m-outside" {
			return true
		}
	}
	return false
}

var parcelsDef = tableDef{Name: "parcels", GCol: "geom", GType: ggpkg.Polygon, Cols: []colDef{{Name: "fid", Type: "INTEGER", NotNull: true, PK: true}, {Name: "name", Type: "TEXT"}, {Name: "geom", Type: "POLYGON"}, {Name: "val", Type: "REAL"}}}
var regionsDef = tableDef{Name: "regions", GCol: "shape", GType: ggpkg.MultiPolygon, Cols: []colDef{{Name: "id", Type: "INTEGER", NotNull: true, PK: true}, {Name: "shape", Type: "MULTIPOLYGON"}}}
var poisDef = tableDef{Name: "pois", GCol: "geom", GType: ggpkg.Point, Cols: []colDef{{Name: "fid", Type: "INTEGER", NotNull: true, PK: true}, {Name: "label", Type: "TEXT"}, {Name: "geom", Type: "POINT"}}}
var roadsDef = tableDef{Name: "roads", GCol: "geom", GType: ggpkg.Linestring, Cols: []colDef{{Name: "fid", Type: "INTEGER", NotNull: true, PK: true}, {Name: "geom", Type: "LINESTRING"}}}

func (s c13Source) build(path string) error {
	var tables []tableDef
	rows := map[string][]row{}
	for _, t := range s.Tables {
		switch t {
		case "parcels":
			tables = append(tables, parcelsDef)
			for i, k := range s.Polys {
				var name interface{} = fmt.Sprintf("%s-%d", k, i)
				if i%3 == 2 {
					name = nil
				}
				rows["parcels"] = append(rows["parcels"], row{Attrs: []interface{}{int64(i + 1), name, 0.5 + float64(i)}, Geom: polyKind(k, i)})
			}
		case "regions":
			tables = append(tables, regionsDef)
			for i, k := range s.Multis {
				rows["regions"] = append(rows["regions"], row{Attrs: []interface{}{int64(10 * (i + 1))}, Geom: multiKind(k, i)})
			}
		case "pois":
			tables = append(tables, poisDef)
			for i := 0; i < s.Points; i++ {
				rows["pois"] = append(rows["pois"], row{Attrs: []interface{}{int64(i + 1), fmt.Sprintf("poi %d", i)}, Geom: geom.Point{155000.5 + float64(i), 463000.25}})
			}
		case "roads":
			tables = append(tables, roadsDef)
			for i := 0; i < s.Lines; i++ {
				rows["roads"] = append(rows["roads"], row{Attrs: []interface{}{int64(i + 1)}, Geom: geom.LineString{{155000, 463000 + float64(i)}, {155010.5, 463003.25}}})
			}
		}
	}
	if s.KeyStyle == "bigint-desc" {
		for ti, t := range tables {
			cols := append([]colDef{}, t.Cols...)
			for ci := range cols {
				if cols[ci].PK {
					cols[ci].Type = "BIGINT"
				}
			}
			tables[ti].Cols = cols
			for ri := range rows[t.Name] {
				rows[t.Name][ri].Attrs[0] = 1000 - rows[t.Name][ri].Attrs[0].(int64)
			}
		}
	}
	return createSource(path, rdSRS, tables, rows)
}

func dedupSorted(ids []int) []int {
	m := map[int]bool{}
	var out []int
	for _, i := range ids {
		if !m[i] {
			m[i] = true
			out = append(out, i)
		}
	}
	sort.Ints(out)
	return out
}

// expectedName: insert _<id> before the extension of the given target path
func expectedName(p string, id int) string {
	dir, file := filepath.Split(p)
	ext := ""
	if i := strings.LastIndex(file, "."); i >= 0 {
		ext = file[i:]
		file = file[:i]
	}
	return filepath.Join(dir, fmt.Sprintf("%s_%d%s", file, id, ext))
}

// roundTrip normalises a geometry the way storing it in a GeoPackage does
func roundTrip(g geom.Geometry) geom.Geometry {
	sb, err := ggpkg.NewBinary(srsRD, g)
	if err != nil {
		ev.HarnessError("encode: %v", err)
	}
	b, err := sb.Encode()
	if err != nil {
		ev.HarnessError("encode: %v", err)
	}
	d, err := ggpkg.DecodeGeometry(b)
	if err != nil {
		ev.HarnessError("decode: %v", err)
	}
	return d.Geometry
}

func snapSafe(p geom.Polygon, tms tms20.TileMatrixSet, ids []int, cfg snap.Config) (res map[int][]geom.Polygon, pan any) {
	defer func() {
		if r := recover(); r != nil {
			pan = r
		}
	}()
	return snap.SnapPolygon(p, tms, ids, cfg), nil
}

func listFiles(dir string) map[string]bool {
	out := map[string]bool{}
	_ = filepath.Walk(dir, func(p string, info os.FileInfo, err error) error {
		if err == nil && !info.IsDir() {
			rel, _ := filepath.Rel(dir, p)
			out[rel] = true
		}
		return nil
	})
	return out
}

// c13One runs the real binary for one case; returns the first discrepancy
func c13One(texel, work string, shard int, c c13Case, srcCache map[string]string) (string, string) {
	tms, err := tms20.LoadEmbeddedTileMatrixSet(c.TMS)
	if err != nil {
		ev.HarnessError("%v", err)
	}
	src, ok := srcCache[c.Src.key()]
	if !ok {
		src = filepath.Join(work, fmt.Sprintf("c13-src-%d-%d.gpkg", shard, len(srcCache)))
		if err := c.Src.build(src); err != nil {
			ev.HarnessError("cannot build source: %v", err)
		}
		srcCache[c.Src.key()] = src
	}
	outDir := filepath.Join(work, fmt.Sprintf("c13-out-%d", shard))
	_ = os.RemoveAll(outDir)
	if err := os.MkdirAll(filepath.Join(outDir, filepath.Dir(c.Path)), 0o755); err != nil {
		ev.HarnessError("%v", err)
	}
	ids := dedupSorted(c.IDs)
	if c.Existing {
		pre := ids
		if c.ExistingIDs != nil {
			pre = c.ExistingIDs
		}
		for _, id := range pre {
			old := filepath.Join(outDir, expectedName(c.Path, id))
			oldSrc := c13Source{Tables: []string{"parcels", "roads"}, Polys: []string{"plain", "plain", "hole", "plain"}, Lines: 2}
			if err := oldSrc.build(old); err != nil {
				ev.HarnessError("cannot build pre-existing target: %v", err)
			}
		}
	}
	before := listFiles(outDir)
	idsJSON, _ := json.Marshal(c.IDs)
	if c.IDSpelling != "" {
		idsJSON = []byte(c.IDSpelling) // the same list written differently (legal JSON)
	}
	args := []string{"-s", src, "-t", filepath.Join(outDir, c.Path), "-tms", c.TMS, "-z", string(idsJSON)}
	env := os.Environ()
	if c.Page > 0 {
		args = append(args, "-p", fmt.Sprint(c.Page))
	}
	flag := func(on bool, short, envName string) {
		if !on {
			if c.ExplicitFalse && short != "o" {
				if c.UseEnv {
					env = append(env, envName+"=false")
				} else {
					args = append(args, "-"+short+"=false")
				}
			}
			return
		}
		if c.UseEnv {
			env = append(env, envName+"=true")
		} else {
			args = append(args, "-"+short)
		}
	}
	flag(c.Overwrite, "o", "OVERWRITE")
	flag(c.Keep, "pl", "KEEPPOINTSANDLINES")
	flag(c.Ignore, "iog", "IGNOREOUTSIDEGRID")
	flag(c.Reverse, "rwo", "REVERSEWINDINGORDER")
	cmd := exec.Command(texel, args...)
	cmd.Env = env
	var stderr bytes.Buffer
	cmd.Stderr = &stderr
	cmd.Stdout = &stderr
	runErr := cmd.Run()
	tail := stderr.String()
	if len(tail) > 600 {
		tail = tail[len(tail)-600:]
	}
	if c.Src.hasOutside() && !c.Ignore {
		// by C09 the library panics: only the exit status is specified
		if runErr == nil {
			return "outside-grid-exit-zero", "a feature outside the grid without ignore-outside-grid: the tool exited with status 0"
		}
		return "", ""
	}
	if runErr != nil {
		return "nonzero-exit", fmt.Sprintf("the tool failed (%v): ...%s", runErr, tail)
	}
	// exactly the expected files
	after := listFiles(outDir)
	want := map[string]bool{}
	for _, id := range ids {
		want[expectedName(c.Path, id)] = true
	}
	for f := range after {
		if !want[f] && !before[f] && !strings.HasSuffix(f, "-journal") && !strings.HasSuffix(f, "-wal") && !strings.HasSuffix(f, "-shm") {
			return "unexpected-file", fmt.Sprintf("unexpected file %q created (expected %v)", f, keys(want))
		}
	}
	for f := range want {
		if !after[f] {
			return "missing-file", fmt.Sprintf("expected target file %q was not created (directory has %v)", f, keys(after))
		}
	}
	cfg := snap.Config{KeepPointsAndLines: c.Keep, IgnoreOutsideGrid: c.Ignore, ReverseWindingOrder: c.Reverse}
	sdb, err := openDB(src)
	if err != nil {
		ev.HarnessError("%v", err)
	}
	defer sdb.Close()
	for _, id := range ids {
		tdb, err := openDB(filepath.Join(outDir, expectedName(c.Path, id)))
		if err != nil {
			return "unreadable-target", err.Error()
		}
		sig, what := c13CompareDB(sdb, tdb, c, tms, ids, id, cfg)
		tdb.Close()
		if sig != "" {
			return sig, fmt.Sprintf("target for tile matrix %d: %s", id, what)
		}
	}
	return "", ""
}

func keys(m map[string]bool) []string {
	var o []string
	for k := range m {
		o = append(o, k)
	}
	sort.Strings(o)
	return o
}

type c13Shard struct {
	States, Nontrivial int64
	Samples            []any
	Exhaustive         bool
	PerLattice         map[string]int64
}

func c13Cases(thorough bool) []c13Case {
	var cs []c13Case
	rd := "NetherlandsRDNewQuad"
	s1 := c13Source{Tables: []string{"parcels", "pois"}, Polys: []string{"plain", "pinch", "small", "tiny", "hole", "cw"}, Points: 3}
	// L1: ids x flags x page sizes
	for _, ids := range [][]int{{5}, {8, 5}, {5, 8, 10}, {5, 5}} {
		for _, keep := range []bool{false, true} {
			for _, rev := range []bool{false, true} {
				for _, page := range []int{1, 2, 0} {
					cs = append(cs, c13Case{Name: "L1 ids x keep x reverse x page", TMS: rd, IDs: ids, Page: page, Keep: keep, Reverse: rev, Path: "out.gpkg", Src: s1})
				}
			}
		}
	}
	// L2: all eight flag combinations on a source with a feature outside the grid, flags on the command line and via environment
	s2 := c13Source{Tables: []string{"parcels", "regions"}, Polys: []string{"plain", "outside", "cw", "small"}, Multis: []string{"m-outside", "m-two"}}
	for m := 0; m < 8; m++ {
		for _, viaEnv := range []bool{false, true} {
			cs = append(cs, c13Case{Name: "L2 all flag combinations, outside-grid feature", TMS: rd, IDs: []int{5, 8}, Page: 2, Keep: m&1 != 0, Ignore: m&2 != 0, Reverse: m&4 != 0, Path: "o.gpkg", Src: s2, UseEnv: viaEnv})
		}
	}
	// the same flag combinations on an in-grid source (each flag must reach its own option)
	s2b := c13Source{Tables: []string{"parcels"}, Polys: []string{"cw", "small", "pinch"}}
	for m := 0; m < 8; m++ {
		cs = append(cs, c13Case{Name: "L2b all flag combinations, in-grid source", TMS: rd, IDs: []int{5, 8}, Page: 1000, Keep: m&1 != 0, Ignore: m&2 != 0, Reverse: m&4 != 0, Path: "o.gpkg", Src: s2b})
	}
	// L9: all eight flag combinations with the options that are off GIVEN as false, on the command line and via environment
	for m := 0; m < 8; m++ {
		for _, viaEnv := range []bool{false, true} {
			cs = append(cs, c13Case{Name: "L9 off flags given as false", TMS: rd, IDs: []int{5}, Page: 2, Keep: m&1 != 0, Ignore: m&2 != 0, Reverse: m&4 != 0, Path: "o.gpkg", Src: s2, UseEnv: viaEnv, ExplicitFalse: true})
		}
	}
	// L3: target path shapes x target scenario x ids
	for _, p := range []string{"out.gpkg", "sub.dir/out.v1.gpkg", "noext", "a.b.c.gpkg", "dir.d/noext"} {
		for _, scen := range []struct{ ov, ex bool }{{false, false}, {true, false}, {true, true}} {
			for _, ids := range [][]int{{5}, {5, 8}} {
				cs = append(cs, c13Case{Name: "L3 path shape x overwrite scenario x ids", TMS: rd, IDs: ids, Page: 2, Overwrite: scen.ov, Existing: scen.ex, Path: p, Src: s2b})
			}
		}
	}
	// L7: overwrite with only some of the targets present beforehand: id lists (ascending, descending, three ids) x every
	// non-empty proper subset of the requested ids having an old target file
	for _, ids := range [][]int{{5, 8}, {8, 5}, {5, 8, 10}} {
		for m := 1; m < 1<<uint(len(ids))-1; m++ {
			var pre []int
			for i, id := range ids {
				if m>>uint(i)&1 == 1 {
					pre = append(pre, id)
				}
			}
			cs = append(cs, c13Case{Name: "L7 overwrite, subset of targets pre-existing", TMS: rd, IDs: ids, Page: 2, Overwrite: true, Existing: true, ExistingIDs: pre, Path: "out.gpkg", Src: s2b})
		}
	}
	// L10: id lists with a repeated id x overwrite scenario (the id occurs twice in the loop that prepares the targets)
	for _, ids := range [][]int{{8, 8}, {5, 8, 5}, {8, 5, 5}} {
		for _, scen := range []struct{ ov, ex bool }{{false, false}, {true, false}, {true, true}} {
			cs = append(cs, c13Case{Name: "L10 repeated id x overwrite scenario", TMS: rd, IDs: ids, Page: 2, Overwrite: scen.ov, Existing: scen.ex, Path: "out.gpkg", Src: s2b})
		}
	}
	// L11: keys that are no rowid alias, stored in descending key order (source order = storage order): page sizes x id lists
	for _, ids := range [][]int{{5}, {5, 8}} {
		for _, page := range []int{1, 2, 0} {
			cs = append(cs, c13Case{Name: "L11 bigint keys stored in descending order", TMS: rd, IDs: ids, Page: page, Keep: page == 2, Path: "out.gpkg",
				Src: c13Source{Tables: []string{"parcels", "regions", "pois"}, Polys: []string{"plain", "pinch", "small", "hole"}, Multis: []string{"m-two", "m-two"}, Points: 3, KeyStyle: "bigint-desc"}})
		}
	}
	// L12: the id list written with white space (legal JSON), long flag names
	for _, sp := range []string{"[5, 8]", " [5,8] ", "[ 5 ,8 ]", "[\n5,\n8\n]", "[8 , 5]"} {
		ids := []int{5, 8}
		if strings.Contains(sp, "8 , 5") {
			ids = []int{8, 5}
		}
		cs = append(cs, c13Case{Name: "L12 id list spellings", TMS: rd, IDs: ids, IDSpelling: sp, Page: 2, Path: "out.gpkg", Src: s2b})
	}
	// L8: table order: every ordering of every subset of >= 2 of the four tables (polygon, multipolygon, point, line);
	// plus sources in which one of the tables has no rows
	{
		all := []string{"parcels", "regions", "pois", "roads"}
		var perms func(rest, cur []string)
		perms = func(rest, cur []string) {
			if len(cur) >= 2 {
				src := c13Source{Tables: append([]string{}, cur...), Polys: []string{"pinch", "small", "plain"}, Multis: []string{"m-two", "m-collapse"}, Points: 2, Lines: 2}
				cs = append(cs, c13Case{Name: "L8 table order", TMS: rd, IDs: []int{5, 8}, Page: 2, Path: "o.gpkg", Src: src})
			}
			for i, t := range rest {
				nr := append(append([]string{}, rest[:i]...), rest[i+1:]...)
				perms(nr, append(cur, t))
			}
		}
		perms(all, nil)
		for _, empty := range all {
			src := c13Source{Tables: []string{"pois", "parcels", "roads", "regions"}, Polys: []string{"pinch", "plain"}, Multis: []string{"m-two"}, Points: 2, Lines: 2}
			switch empty {
			case "parcels":
				src.Polys = nil
			case "regions":
				src.Multis = nil
			case "pois":
				src.Points = 0
			case "roads":
				src.Lines = 0
			}
			cs = append(cs, c13Case{Name: "L8 table without rows", TMS: rd, IDs: []int{5, 8}, Page: 2, Path: "o.gpkg", Src: src})
		}
	}
	// L4: family of sources: every sequence of <= 2 polygon kinds x every sequence of <= 1 multipolygon kinds, plus point/line tables
	pk := []string{"plain", "pinch", "small", "tiny", "hole", "cw"}
	mk := []string{"m-two", "m-mixed", "m-collapse"}
	var pseqs [][]string
	pseqs = append(pseqs, nil)
	for _, a := range pk {
		pseqs = append(pseqs, []string{a})
		for _, b := range pk {
			pseqs = append(pseqs, []string{a, b})
		}
	}
	mseqs := [][]string{nil}
	for _, a := range mk {
		mseqs = append(mseqs, []string{a})
	}
	if thorough {
		for _, a := range mk {
			for _, b := range mk {
				mseqs = append(mseqs, []string{a, b})
			}
		}
	}
	for pi, ps := range pseqs {
		for mi, ms := range mseqs {
			src := c13Source{Tables: []string{"regions", "parcels", "roads"}, Polys: ps, Multis: ms, Lines: (pi + mi) % 3}
			cs = append(cs, c13Case{Name: "L4 source family", TMS: rd, IDs: []int{5, 8}, Page: 1 + (pi+mi)%2, Keep: (pi+mi)%2 == 0, Path: "t.gpkg", Src: src})
		}
	}
	// L6: another tile matrix set (the geometry is snapped on whatever grid is named, the SRS is only copied)
	for _, tmsName := range []string{"WebMercatorQuad", "WorldMercatorWGS84Quad"} {
		for _, ids := range [][]int{{12}, {10, 12}} {
			for _, keep := range []bool{false, true} {
				cs = append(cs, c13Case{Name: "L6 other tile matrix sets", TMS: tmsName, IDs: ids, Page: 2, Keep: keep, Reverse: keep, Path: "w.gpkg", Src: s1})
			}
		}
	}
	if thorough {
		// L5: page sizes x three-table sources with three rows each
		for _, page := range []int{1, 2, 3, 4, 1000} {
			for _, ids := range [][]int{{5}, {10, 8, 5}} {
				src := c13Source{Tables: []string{"parcels", "regions", "pois", "roads"}, Polys: []string{"pinch", "small", "plain"}, Multis: []string{"m-mixed", "m-collapse", "m-two"}, Points: 3, Lines: 3}
				for m := 0; m < 4; m++ {
					cs = append(cs, c13Case{Name: "L5 page sizes x four tables", TMS: rd, IDs: ids, Page: page, Keep: m&1 != 0, Reverse: m&2 != 0, Path: "x.y.gpkg", Src: src})
				}
			}
		}
	}
	return cs
}

func runC13() {
	r := ev.New("C13")
	work := os.Getenv("VERIF_WORK")
	texel := os.Getenv("VERIF_TEXEL_BIN")
	if texel == "" {
		ev.HarnessError("VERIF_TEXEL_BIN not set")
	}
	cases := c13Cases(r.Thorough())
	if rp := os.Getenv("VERIF_REPLAY"); rp != "" {
		b, _ := os.ReadFile(rp)
		var f struct {
			Case c13Case `json:"case"`
		}
		if err := json.Unmarshal(b, &f); err != nil {
			ev.HarnessError("%v", err)
		}
		if sig, what := c13One(texel, work, 99, f.Case, map[string]string{}); sig != "" {
			r.Violation(sig, what, f.Case)
		}
		r.Exit()
	}
	if r.IsShard() {
		sd := c13Shard{Exhaustive: true, PerLattice: map[string]int64{}}
		cache := map[string]string{}
		for i, c := range cases {
			if i%r.ShardN != r.ShardI {
				continue
			}
			if r.Expired() {
				sd.Exhaustive = false
				break
			}
			sd.States++
			sd.PerLattice[c.Name]++
			if len(c.Src.Polys)+len(c.Src.Multis) > 0 {
				sd.Nontrivial++
			}
			if sig, what := c13One(texel, work, r.ShardI, c, cache); sig != "" {
				b, _ := json.Marshal(c)
				r.Violation(sig, fmt.Sprintf("%s: %s; case %s", c.Name, what, b), c)
			}
			if len(sd.Samples) < 1 && i > 40 {
				sd.Samples = append(sd.Samples, c)
			}
		}
		r.FinishShard(sd)
	}
	parts := r.RunShards(runtime.NumCPU())
	tot := c13Shard{Exhaustive: true, PerLattice: map[string]int64{}}
	for _, raw := range parts {
		var sd c13Shard
		_ = json.Unmarshal(raw, &sd)
		tot.States += sd.States
		tot.Nontrivial += sd.Nontrivial
		tot.Samples = append(tot.Samples, sd.Samples...)
		tot.Exhaustive = tot.Exhaustive && sd.Exhaustive
		for k, v := range sd.PerLattice {
			tot.PerLattice[k] += v
		}
	}
	if len(tot.Samples) > 4 {
		tot.Samples = tot.Samples[:4]
	}
	if len(tot.Samples) == 0 {
		tot.Samples = []any{"none"}
	}
	r.Assumptions = []string{"the 'spatialite' driver stub compiled into the binary by overlay (build tag verif)", "reference = snap.SnapPolygon from the same working tree applied to the decoded source rows (so C13 checks the plumbing, not the snapping)", "sources with a feature outside the grid and ignore off: only the non-zero exit status is checked (the library panics by C09)"}
	r.Finish(map[string]any{
		"states": tot.States, "transitions": tot.States, "traces_validated_against_impl": 0, "samples": tot.Samples,
		"evaluations": tot.States, "distinct_nontrivial": tot.Nontrivial, "exhaustive": tot.Exhaustive && int(tot.States) == len(cases),
		"runs_per_sub_lattice": tot.PerLattice,
		"rule":                 "state = one invocation of the real texel binary; the lattice is the union of fully enumerated sub-lattices: L1 id lists (single, descending, three, duplicate) x keep x reverse x page size {1,2,default}; L2 all 8 flag combinations (command line and environment) on a source with an outside-grid feature and on an in-grid source; L3 5 target path shapes x {fresh, overwrite, pre-existing + overwrite} x ids; L7 overwrite with every non-empty proper subset of the requested targets pre-existing x three id lists; L9 all 8 flag combinations with the off options given explicitly as false (command line and environment); L10 id lists with a repeated id x {fresh, overwrite, pre-existing + overwrite}; L11 tables whose key is no rowid alias (BIGINT) stored in descending key order; L12 the id list written with white space; L8 every ordering of every subset of >= 2 of the four table kinds, and sources with one table without rows; L4 every sequence of <= 2 polygon kinds x <= 1 (thorough 2) multipolygon kinds with line table; L6 WebMercatorQuad and WorldMercatorWGS84Quad x two id lists x keep/reverse; thorough L5 page sizes x four tables; each run is compared file by file, table by table, row by row with the reference; non-trivial = sources with at least one (multi)polygon",
	})
}
