package main

import (
	"database/sql"
	"encoding/json"
	"fmt"
	"math"
	"os"
	"path/filepath"
	"reflect"
	"runtime"
	"strings"

	"github.com/go-spatial/geom"
	ggpkg "github.com/go-spatial/geom/encoding/gpkg"
	"github.com/pdok/texel/processing"
	tgpkg "github.com/pdok/texel/processing/gpkg"
	"verif/engine/ev"
)

type c12Case struct {
	Page    int    `json:"page_size"`
	N       int    `json:"features"`
	Pattern string `json:"pattern"` // one letter per feature: A small box, B box extending the extent, E empty geometry
	Schema  string `json:"schema"`  // "fid" or "mixed"
	GType   string `json:"geometry_type"`
	// Second: a second table ("parcels_2", same schema) written afterwards through the SAME TargetGeopackage, the way
	// the command line tool handles a source with several tables; its geometries lie 5000 units further east
	Second *c12Part `json:"second_table,omitempty"`
	// Names: names of the first and the second table (default parcels, parcels_2): a name that extends the other one,
	// in either order
	Names [2]string `json:"table_names,omitempty"`
	// LocalSRS: the source registers its reference system under srs_id 100001 (organisation EPSG, code 28992)
	LocalSRS bool `json:"local_srs_id,omitempty"`
}

type c12Part struct {
	N       int    `json:"features"`
	Pattern string `json:"pattern"`
}

func shiftGeom(g geom.Geometry, dx float64) geom.Geometry {
	switch v := g.(type) {
	case geom.Point:
		return geom.Point{v[0] + dx, v[1]}
	case geom.Polygon:
		out := make(geom.Polygon, len(v))
		for i, r := range v {
			out[i] = make([][2]float64, len(r))
			for j, p := range r {
				out[i][j] = [2]float64{p[0] + dx, p[1]}
			}
		}
		return out
	case geom.MultiPolygon:
		out := make(geom.MultiPolygon, len(v))
		for i, pl := range v {
			out[i] = shiftGeom(geom.Polygon(pl), dx).(geom.Polygon)
		}
		return out
	}
	return g
}

type feat struct {
	cols []interface{}
	g    geom.Geometry
}

func (f *feat) Columns() []interface{}  { return f.cols }
func (f *feat) Geometry() geom.Geometry { return f.g }

func c12Table(schema, gtype string) tableDef {
	gt := map[string]ggpkg.GeometryType{"POLYGON": ggpkg.Polygon, "MULTIPOLYGON": ggpkg.MultiPolygon, "POINT": ggpkg.Point,
		"GEOMETRY": ggpkg.Geometry, "LINESTRING": ggpkg.Linestring, "MULTIPOINT": ggpkg.MultiPoint, "MULTILINESTRING": ggpkg.MultiLinestring, "GEOMETRYCOLLECTION": ggpkg.GeometryCollection}[gtype]
	t := tableDef{Name: "parcels", GCol: "geom", GType: gt}
	if schema == "fid" {
		t.Cols = []colDef{{Name: "fid", Type: "INTEGER", NotNull: true, PK: true}, {Name: "geom", Type: gtype}}
	} else if schema == "bigint-key" {
		// a key that is no alias of the rowid (BIGINT, not INTEGER), declared types with a length, NOT NULL attributes;
		// the keys are handed over in descending order
		t.Cols = []colDef{{Name: "id", Type: "BIGINT", NotNull: true, PK: true}, {Name: "label", Type: "VARCHAR(20)", NotNull: true}, {Name: "geom", Type: gtype}, {Name: "height", Type: "DOUBLE"}}
	} else {
		// geometry column in the middle; integer, real and text attributes that may be NULL
		t.Cols = []colDef{{Name: "fid", Type: "INTEGER", NotNull: true, PK: true}, {Name: "cnt", Type: "INTEGER"}, {Name: "geom", Type: gtype}, {Name: "area", Type: "REAL"}, {Name: "name", Type: "TEXT"}}
	}
	return t
}

func c12Geom(letter byte, i int, gtype string) geom.Geometry {
	box := func(x, y, s float64) geom.Polygon {
		return geom.Polygon{{{x, y}, {x + s, y}, {x + s, y + s}, {x, y + s}}}
	}
	// the pass-through types: A = small, B = far away (extends the extent)
	px, py := 10+float64(i%3), 20+float64(i%2)
	if letter == 'B' {
		px, py = 1000+10*float64(i), -500-float64(i)
	}
	switch gtype {
	case "LINESTRING":
		return geom.LineString{{px, py}, {px + 1, py + 2}}
	case "MULTIPOINT":
		return geom.MultiPoint{{px, py}, {px + 2, py + 1}}
	case "MULTILINESTRING":
		return geom.MultiLineString{{{px, py}, {px + 1, py + 2}}, {{px + 3, py}, {px + 3, py + 1}}}
	case "GEOMETRYCOLLECTION":
		return geom.Collection{geom.Point{px, py}, geom.LineString{{px, py}, {px + 1, py + 2}}}
	case "GEOMETRY": // any type may sit in such a table
		if i%2 == 0 {
			return geom.Point{px, py}
		}
		return box(px, py, 1)
	}
	switch gtype {
	case "POINT":
		if letter == 'B' {
			return geom.Point{1000 + 10*float64(i), -500 - float64(i)}
		}
		return geom.Point{10 + float64(i%3), 20 + float64(i%2)}
	case "MULTIPOLYGON":
		switch letter {
		case 'E':
			return geom.MultiPolygon{}
		case 'B':
			return geom.MultiPolygon{box(1000+10*float64(i), -500-float64(i), 5), box(3, 3, 1)}
		}
		return geom.MultiPolygon{box(10+float64(i%3), 20+float64(i%2), 1), box(12, 22, 0.5)}
	}
	switch letter {
	case 'E':
		return geom.Polygon{}
	case 'B':
		return box(1000+10*float64(i), -500-float64(i), 5)
	}
	return box(10+float64(i%3), 20+float64(i%2), 1)
}

func c12Attrs(schema string, i int) []interface{} {
	fid := int64(i + 1)
	if schema == "fid" {
		return []interface{}{fid}
	}
	if schema == "bigint-key" {
		return []interface{}{int64(1000 - 10*i + 5*(i%2)), fmt.Sprintf("l%d", i), 2.5 * float64(i)}
	}
	// every NULL pattern over the three attribute columns, cycling with the row number
	var cnt, area, name interface{}
	// values: ordinary ones, and (rows 3, 4, 5 mod 6) values that a conversion on the way could damage: an integer
	// beyond 2^53, zero and negative numbers, a huge real, an empty string (not NULL), quotes and non-ASCII text
	if i&1 == 0 {
		cnt = []int64{int64(100 + i), int64(100 + i), int64(100 + i), 1<<53 + 1, 0, -7}[i%6]
	}
	if i&2 == 0 {
		area = []float64{1.5 + float64(i), 1.5 + float64(i), 1.5 + float64(i), 1e300, 0, -2.25}[i%6]
	}
	if i&4 == 0 {
		name = []string{fmt.Sprintf("n%d", i), fmt.Sprintf("n%d", i), fmt.Sprintf("n%d", i), "", "it's \"quoted\"; -- x", "Ünïcödé \u20ac"}[i%6]
	}
	return []interface{}{fid, cnt, area, name}
}

func c12Patterns(n int, full bool) []string {
	if full && n <= 5 {
		out := []string{""}
		for i := 0; i < n; i++ {
			var next []string
			for _, s := range out {
				for _, l := range "ABE" {
					next = append(next, s+string(l))
				}
			}
			out = next
		}
		return out
	}
	// all placements of at most two non-A features (full), or of at most one (reduced)
	base := strings.Repeat("A", n)
	out := []string{base}
	for i := 0; i < n; i++ {
		for _, l := range "BE" {
			s := []byte(base)
			s[i] = byte(l)
			out = append(out, string(s))
			if full {
				for j := i + 1; j < n; j++ {
					for _, m := range "BE" {
						t := append([]byte{}, s...)
						t[j] = byte(m)
						out = append(out, string(t))
					}
				}
			}
		}
	}
	return out
}

func c12Cases(thorough bool) []c12Case {
	maxP := 3
	if thorough {
		maxP = 6
	}
	var cs []c12Case
	for p := 1; p <= maxP; p++ {
		for n := 0; n <= 3*p+1; n++ {
			for _, schema := range []string{"mixed", "fid"} {
				for _, gt := range []string{"POLYGON", "MULTIPOLYGON", "POINT"} {
					full := schema == "mixed" && gt == "POLYGON"
					if thorough && gt == "MULTIPOLYGON" {
						full = full || schema == "mixed"
					}
					for _, pat := range c12Patterns(n, full) {
						if gt == "POINT" && strings.Contains(pat, "E") {
							continue
						}
						cs = append(cs, c12Case{Page: p, N: n, Pattern: pat, Schema: schema, GType: gt})
					}
				}
			}
		}
	}
	// every other geometry type name a table may carry (all passed through untouched): counts around the page size
	for _, gt := range []string{"GEOMETRY", "LINESTRING", "MULTIPOINT", "MULTILINESTRING", "GEOMETRYCOLLECTION"} {
		for p := 1; p <= 2; p++ {
			for _, pat := range []string{"", "A", "B", "AB", "ABA", "BAA"} {
				cs = append(cs, c12Case{Page: p, N: len(pat), Pattern: pat, Schema: "mixed", GType: gt})
			}
		}
	}
	// a table whose key is no rowid alias and whose rows arrive in descending key order
	for p := 1; p <= 2; p++ {
		for n := 0; n <= 2*p+1; n++ {
			for _, gt := range []string{"POLYGON", "POINT"} {
				cs = append(cs, c12Case{Page: p, N: n, Pattern: strings.Repeat("A", n), Schema: "bigint-key", GType: gt})
			}
		}
	}
	// a reference system registered under a file-local srs_id: counts around the page size x page sizes 1..2, both schemas
	for p := 1; p <= 2; p++ {
		for n := 0; n <= 2*p+1; n++ {
			for _, schema := range []string{"mixed", "fid"} {
				cs = append(cs, c12Case{Page: p, N: n, Pattern: strings.Repeat("A", n), Schema: schema, GType: "POLYGON", LocalSRS: true})
			}
		}
	}
	// two tables through one target: every pair of short patterns (incl. empty tables) x page sizes 1..2
	pats := []string{"", "A", "B", "E", "AA", "AB", "BA", "AE", "AAA"}
	for p := 1; p <= 2; p++ {
		for _, p1 := range pats {
			for _, p2 := range pats {
				cs = append(cs, c12Case{Page: p, N: len(p1), Pattern: p1, Schema: "mixed", GType: "POLYGON", Second: &c12Part{N: len(p2), Pattern: p2}})
			}
		}
	}
	// two tables whose names extend one another, longer name first / one letter longer: patterns around the page size
	for _, names := range [][2]string{{"parcels_2", "parcels"}, {"parcels", "parcel"}, {"parcel", "parcels"}} {
		for _, p1 := range []string{"", "A", "AB"} {
			for _, p2 := range []string{"", "A", "BAA"} {
				cs = append(cs, c12Case{Page: 2, N: len(p1), Pattern: p1, Schema: "mixed", GType: "POLYGON", Second: &c12Part{N: len(p2), Pattern: p2}, Names: names})
			}
		}
	}
	return cs
}

func bboxOf(gs []geom.Geometry) *[4]float64 {
	var e *geom.Extent
	for _, g := range gs {
		if isEmptyGeom(g) {
			continue
		}
		x, err := geom.NewExtentFromGeometry(g)
		if err != nil {
			continue
		}
		if e == nil {
			e = x
		} else {
			e.Add(x)
		}
	}
	if e == nil {
		return nil
	}
	return &[4]float64{e.MinX(), e.MinY(), e.MaxX(), e.MaxY()}
}

func geomEqual(a, b geom.Geometry) bool {
	if isEmptyGeom(a) && isEmptyGeom(b) {
		return true
	}
	return reflect.DeepEqual(a, b)
}

func attrsEqual(a, b []interface{}) bool {
	if len(a) != len(b) {
		return false
	}
	for i := range a {
		if !reflect.DeepEqual(a[i], b[i]) {
			return false
		}
	}
	return true
}

// c12One runs one case; returns (signature, what) of the first discrepancy
func c12One(work string, shard int, c c12Case, srcTables map[string][]tgpkg.Table) (string, string) {
	key := c.Schema + "/" + c.GType
	tds := []tableDef{c12Table(c.Schema, c.GType)}
	parts := []c12Part{{c.N, c.Pattern}}
	srs := rdSRS
	if c.LocalSRS {
		srs = rdLocalSRS
		key += "/local-srs"
	}
	if c.Second != nil {
		key += "/2"
		td2 := c12Table(c.Schema, c.GType)
		td2.Name = "parcels_2"
		if c.Names[0] != "" {
			tds[0].Name, td2.Name = c.Names[0], c.Names[1]
			key += "/" + c.Names[0] + "+" + c.Names[1]
		}
		tds = append(tds, td2)
		parts = append(parts, *c.Second)
	}
	if _, ok := srcTables[key]; !ok {
		src := filepath.Join(work, fmt.Sprintf("c12-src-%d-%s-%s-%d-%d-%s.gpkg", shard, c.Schema, c.GType, len(tds), srs.ID, c.Names[0]))
		if err := createSource(src, srs, tds, nil); err != nil {
			ev.HarnessError("cannot create source: %v", err)
		}
		s := tgpkg.SourceGeopackage{}
		s.Init(src)
		srcTables[key] = s.GetTableInfo()
		s.Close()
		if len(srcTables[key]) != len(tds) {
			return "table-info", fmt.Sprintf("GetTableInfo returned %d tables for a source with %d spatial table(s)", len(srcTables[key]), len(tds))
		}
	}
	tables := srcTables[key]
	tpath := filepath.Join(work, fmt.Sprintf("c12-tgt-%d.gpkg", shard))
	_ = os.Remove(tpath)
	target := tgpkg.TargetGeopackage{}
	target.Init(tpath, c.Page)
	if err := target.CreateTables(tables); err != nil {
		target.Close()
		return "create-tables", "CreateTables: " + err.Error()
	}
	wants := make([][]row, len(tds))
	for ti, td := range tds {
		// the table of the target that carries this definition's name
		found := false
		for _, t := range tables {
			if t.Name == td.Name {
				target.Table, found = t, true
			}
		}
		if !found {
			target.Close()
			return "table-info", "GetTableInfo did not return table " + td.Name
		}
		ch := make(chan processing.Feature)
		done := make(chan struct{})
		go func() { target.WriteFeatures(ch); close(done) }()
		for i := 0; i < parts[ti].N; i++ {
			g := c12Geom(parts[ti].Pattern[i], i, c.GType)
			if ti > 0 {
				g = shiftGeom(g, 5000)
			}
			f := &feat{cols: c12Attrs(c.Schema, i), g: g}
			wants[ti] = append(wants[ti], row{Attrs: append([]interface{}{}, f.cols...), Geom: f.g})
			ch <- f
		}
		close(ch)
		<-done
	}
	target.Close()
	db, err := openDB(tpath)
	if err != nil {
		ev.HarnessError("%v", err)
	}
	defer db.Close()
	for ti, td := range tds {
		if sig, what := c12CheckTable(db, td, wants[ti], c, srs); sig != "" {
			if ti > 0 {
				sig, what = "second-table:"+sig, "second table: "+what
			}
			return sig, what
		}
	}
	return "", ""
}

func c12CheckTable(db *sql.DB, td tableDef, want []row, c c12Case, srs ggpkg.SpatialReferenceSystem) (string, string) {
	rb, err := readTable(db, td.Name)
	if err != nil {
		return "unreadable-target", err.Error()
	}
	if !rb.Exists {
		return "table-missing", "target has no table " + td.Name
	}
	// schema, geometry column, type, srs
	if !reflect.DeepEqual(rb.Columns, td.Cols) {
		return "schema-differs", fmt.Sprintf("columns %+v, source has %+v", rb.Columns, td.Cols)
	}
	if rb.GeomCol != td.GCol || !strings.EqualFold(rb.GType, c.GType) || rb.SRSID != srs.ID {
		return "geometry-column-differs", fmt.Sprintf("geometry column %s type %s srs %d, source has %s %s %d", rb.GeomCol, rb.GType, rb.SRSID, td.GCol, c.GType, srs.ID)
	}
	if rb.SRS.Name != srs.Name || rb.SRS.Organization != srs.Organization || rb.SRS.OrganizationCoordsysID != srs.OrganizationCoordsysID || rb.SRS.Definition != srs.Definition {
		return "srs-differs", fmt.Sprintf("srs row %+v, source has %+v", rb.SRS, srs)
	}
	// rows
	if len(rb.Rows) != len(want) {
		return rowSig(len(rb.Rows), len(want), c), fmt.Sprintf("target has %d rows, %d features were handed over", len(rb.Rows), len(want))
	}
	var geoms []geom.Geometry
	nonEmpty := 0
	for i := range want {
		if !attrsEqual(rb.Rows[i].Attrs, want[i].Attrs) {
			return "attributes-differ", fmt.Sprintf("row %d has attributes %v, feature had %v", i, rb.Rows[i].Attrs, want[i].Attrs)
		}
		if !geomEqual(rb.Rows[i].Geom, want[i].Geom) {
			return "geometry-differs", fmt.Sprintf("row %d has geometry %v, feature had %v", i, rb.Rows[i].Geom, want[i].Geom)
		}
		geoms = append(geoms, want[i].Geom)
		if !isEmptyGeom(want[i].Geom) {
			nonEmpty++
			fid := want[i].Attrs[0].(int64)
			e, _ := geom.NewExtentFromGeometry(want[i].Geom)
			got, ok := rb.RTree[fid]
			// the rtree stores 32-bit floats rounded outwards
			if !ok || !(float64(got[0]) <= e.MinX() && e.MaxX() <= float64(got[1]) && float64(got[2]) <= e.MinY() && e.MaxY() <= float64(got[3])) ||
				math.Abs(got[0]-e.MinX()) > 1e-3*(1+math.Abs(e.MinX())) || math.Abs(got[1]-e.MaxX()) > 1e-3*(1+math.Abs(e.MaxX())) ||
				math.Abs(got[2]-e.MinY()) > 1e-3*(1+math.Abs(e.MinY())) || math.Abs(got[3]-e.MaxY()) > 1e-3*(1+math.Abs(e.MaxY())) {
				return "spatial-index-entry", fmt.Sprintf("row %d (fid %d): spatial index entry %v present=%v, geometry box is %v", i, fid, got, ok, e)
			}
		}
	}
	if len(rb.RTree) != nonEmpty {
		return "spatial-index-count", fmt.Sprintf("spatial index has %d entries, %d rows have a non-empty geometry", len(rb.RTree), nonEmpty)
	}
	wantExt := bboxOf(geoms)
	switch {
	case wantExt == nil && rb.Extent != nil:
		return "extent-not-null", fmt.Sprintf("recorded extent %v although no geometry was written", *rb.Extent)
	case wantExt != nil && rb.Extent == nil:
		return "extent-null", fmt.Sprintf("recorded extent is NULL, bounding box of the written geometries is %v", *wantExt)
	case wantExt != nil && *wantExt != *rb.Extent:
		return "extent-differs", fmt.Sprintf("recorded extent %v, bounding box of the written geometries is %v", *rb.Extent, *wantExt)
	}
	return "", ""
}

func rowSig(got, want int, c c12Case) string {
	rel := "other"
	switch {
	case c.N%c.Page == 0:
		rel = "count-multiple-of-page"
	case c.N%c.Page == 1:
		rel = "count-one-more-than-multiple"
	}
	if got < want {
		return "rows-missing:" + rel
	}
	return "rows-extra:" + rel
}

type c12Shard struct {
	States, Nontrivial int64
	Samples            []any
	Exhaustive         bool
}

func runC12() {
	r := ev.New("C12")
	work := os.Getenv("VERIF_WORK")
	if work == "" {
		work = os.TempDir()
	}
	cases := c12Cases(r.Thorough())
	if rp := os.Getenv("VERIF_REPLAY"); rp != "" {
		b, _ := os.ReadFile(rp)
		var f struct {
			Case c12Case `json:"case"`
		}
		if err := json.Unmarshal(b, &f); err != nil {
			ev.HarnessError("%v", err)
		}
		if sig, what := c12One(work, 99, f.Case, map[string][]tgpkg.Table{}); sig != "" {
			r.Violation(sig, what, f.Case)
		}
		r.Exit()
	}
	if r.IsShard() {
		sd := c12Shard{Exhaustive: true}
		src := map[string][]tgpkg.Table{}
		cur := filepath.Join(work, fmt.Sprintf("c12-current-%d.json", r.ShardI))
		for i, c := range cases {
			if i%r.ShardN != r.ShardI {
				continue
			}
			if r.Expired() {
				sd.Exhaustive = false
				break
			}
			b, _ := json.Marshal(c)
			_ = os.WriteFile(cur, b, 0o644) // if texel calls log.Fatal the parent knows which case it was
			sd.States++
			if c.N > 0 {
				sd.Nontrivial++
			}
			if sig, what := c12One(work, r.ShardI, c, src); sig != "" {
				r.Violation(sig, fmt.Sprintf("page size %d, %d features (%s), schema %s, %s: %s", c.Page, c.N, c.Pattern, c.Schema, c.GType, what), c)
			}
			if len(sd.Samples) < 1 && c.N >= 3 {
				sd.Samples = append(sd.Samples, c)
			}
		}
		_ = os.Remove(cur)
		r.FinishShard(sd)
	}
	n := runtime.NumCPU()
	r.ShardFail = func(i int, err error) bool {
		b, rerr := os.ReadFile(filepath.Join(work, fmt.Sprintf("c12-current-%d.json", i)))
		if rerr != nil {
			return false
		}
		var c c12Case
		_ = json.Unmarshal(b, &c)
		r.Violation("writer-aborted", fmt.Sprintf("the process was terminated (log.Fatal / crash: %v) while writing page size %d, %d features (%s), schema %s, %s", err, c.Page, c.N, c.Pattern, c.Schema, c.GType), c)
		return true
	}
	parts := r.RunShards(n)
	var tot c12Shard
	tot.Exhaustive = true
	for _, raw := range parts {
		var sd c12Shard
		_ = json.Unmarshal(raw, &sd)
		tot.States += sd.States
		tot.Nontrivial += sd.Nontrivial
		tot.Samples = append(tot.Samples, sd.Samples...)
		tot.Exhaustive = tot.Exhaustive && sd.Exhaustive
	}
	if len(tot.Samples) > 5 {
		tot.Samples = tot.Samples[:5]
	}
	if len(tot.Samples) == 0 {
		tot.Samples = []any{"none"}
	}
	maxP := 3
	if r.Thorough() {
		maxP = 6
	}
	r.Assumptions = []string{"the 'spatialite' driver stub (plain SQLite + pure-Go ST_IsEmpty/ST_MinX/..) evaluates the R-tree triggers instead of libspatialite", "source table description comes from the real SourceGeopackage.GetTableInfo on a file written with plain SQL"}
	r.Finish(map[string]any{
		"states": tot.States, "transitions": tot.States * 2, "traces_validated_against_impl": 0, "samples": tot.Samples,
		"evaluations": tot.States, "distinct_nontrivial": tot.Nontrivial, "exhaustive": tot.Exhaustive && len(cases) == int(tot.States),
		"cases_in_lattice": len(cases),
		"rule":             fmt.Sprintf("state = (page size 1..%d, feature count 0..3p+1, content pattern over {A small box, B box extending the extent, E empty geometry}: all sequences for n<=5 and all placements of <= 2 non-A features beyond (reduced to <= 1 for the secondary schema/type combinations), schema {fid only; fid + integer + geometry in the middle + real + text cycling through all NULL patterns}, geometry type {polygon, multipolygon, point}); each state is written through the real TargetGeopackage (Init, CreateTables, WriteFeatures over an unbuffered channel) and read back with SQL; transitions = write + read-back; non-trivial = cases with at least one feature", maxP),
	})
}
