package main

import (
	"database/sql"
	"fmt"
	"reflect"
	"strings"

	"github.com/go-spatial/geom"
	"github.com/pdok/texel/snap"
	"github.com/pdok/texel/tms20"
	"verif/engine/ev"
)

func spatialTables(db *sql.DB) ([]string, error) {
	rows, err := db.Query(`SELECT table_name FROM gpkg_geometry_columns`)
	if err != nil {
		return nil, err
	}
	defer rows.Close()
	var out []string
	for rows.Next() {
		var n string
		if err := rows.Scan(&n); err != nil {
			return nil, err
		}
		out = append(out, n)
	}
	return out, nil
}

// expectedGeometry: what the tool must write for one source geometry and tile matrix id (nil = feature omitted)
func expectedGeometry(g geom.Geometry, tms tms20.TileMatrixSet, ids []int, id int, cfg snap.Config) geom.Geometry {
	switch v := g.(type) {
	case geom.Polygon:
		res, pan := snapSafe(v, tms, ids, cfg)
		if pan != nil {
			ev.HarnessError("the library panics on a source polygon although the tool exited with status 0: %v", pan)
		}
		ps := res[id]
		switch len(ps) {
		case 0:
			return nil
		case 1:
			return ps[0]
		}
		mp := geom.MultiPolygon{}
		for _, p := range ps {
			mp = append(mp, p)
		}
		return mp
	case geom.MultiPolygon:
		mp := geom.MultiPolygon{}
		for _, part := range v {
			res, pan := snapSafe(part, tms, ids, cfg)
			if pan != nil {
				ev.HarnessError("the library panics on a source multipolygon part although the tool exited with status 0: %v", pan)
			}
			for _, p := range res[id] {
				mp = append(mp, p)
			}
		}
		if len(mp) == 0 {
			return nil
		}
		return mp
	}
	return g
}

func c13CompareDB(sdb, tdb *sql.DB, c c13Case, tms tms20.TileMatrixSet, ids []int, id int, cfg snap.Config) (string, string) {
	st, err := spatialTables(sdb)
	if err != nil {
		ev.HarnessError("%v", err)
	}
	tt, err := spatialTables(tdb)
	if err != nil {
		return "unreadable-target", err.Error()
	}
	inSrc := map[string]bool{}
	for _, t := range st {
		inSrc[t] = true
	}
	for _, t := range tt {
		if !inSrc[t] {
			return "foreign-table-in-target", fmt.Sprintf("target has spatial table %q that the source does not have (content of an earlier file survived?)", t)
		}
	}
	all, _ := tableNames(tdb)
	for _, t := range all {
		if !inSrc[t] && !strings.HasPrefix(t, "gpkg_") && !strings.HasPrefix(t, "rtree_") && !strings.HasPrefix(t, "sqlite_") {
			return "foreign-table-in-target", fmt.Sprintf("target has table %q that the source does not have (content of an earlier file survived?)", t)
		}
	}
	for _, t := range st {
		srb, err := readTable(sdb, t)
		if err != nil {
			ev.HarnessError("source unreadable: %v", err)
		}
		trb, err := readTable(tdb, t)
		if err != nil {
			return "unreadable-target", fmt.Sprintf("table %s: %v", t, err)
		}
		if !trb.Exists {
			return "table-missing", fmt.Sprintf("table %s is missing", t)
		}
		if !reflect.DeepEqual(srb.Columns, trb.Columns) || srb.GeomCol != trb.GeomCol || srb.GType != trb.GType || srb.SRSID != trb.SRSID {
			return "table-definition-differs", fmt.Sprintf("table %s: columns %+v geometry column %s type %s srs %d; source has %+v %s %s %d", t, trb.Columns, trb.GeomCol, trb.GType, trb.SRSID, srb.Columns, srb.GeomCol, srb.GType, srb.SRSID)
		}
		var want []row
		for _, r := range srb.Rows {
			g := expectedGeometry(r.Geom, tms, ids, id, cfg)
			if g == nil {
				continue
			}
			want = append(want, row{Attrs: r.Attrs, Geom: roundTrip(g)})
		}
		if len(want) != len(trb.Rows) {
			return "row-count:" + tableKind(srb.GType), fmt.Sprintf("table %s has %d rows, expected %d (source has %d)", t, len(trb.Rows), len(want), len(srb.Rows))
		}
		for i := range want {
			if !attrsEqual(want[i].Attrs, trb.Rows[i].Attrs) {
				return "attributes-differ:" + tableKind(srb.GType), fmt.Sprintf("table %s row %d has attributes %v, expected %v", t, i, trb.Rows[i].Attrs, want[i].Attrs)
			}
			if !geomEqual(want[i].Geom, trb.Rows[i].Geom) {
				return "geometry-differs:" + tableKind(srb.GType), fmt.Sprintf("table %s row %d (attributes %v): geometry %v, the library returns %v for tile matrix %d under %+v", t, i, want[i].Attrs, trb.Rows[i].Geom, want[i].Geom, id, cfg)
			}
		}
	}
	return "", ""
}

func tableKind(gtype string) string {
	switch strings.ToUpper(gtype) {
	case "POLYGON", "MULTIPOLYGON":
		return "polygon-table"
	}
	return "other-table"
}
