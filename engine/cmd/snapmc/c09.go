package main

import (
	"errors"
	"fmt"
	"math"
	"reflect"
	"time"

	"github.com/go-spatial/geom"
	"github.com/pdok/texel/pointindex"
	"github.com/pdok/texel/snap"
	"github.com/pdok/texel/tms20"
	"verif/engine/ev"
	"verif/engine/grid"
)

// quantise: the tool's specified conversion to fixed point (units of 1e-10, truncating)
func quantise(x float64) int64 { return int64(x * math.Pow(10, 10)) }

type c09Grid struct {
	Name                   string
	TMS                    tms20.TileMatrixSet
	ID                     int
	MinX, MinY, MaxX, MaxY int64 // half-open extent in fixed-point units (reference, from the set's definition)
	Pixel                  int64 // pixel size of ID in units
	OutsideOnly            bool  // no inside controls (non-round grids: see c09Grids)
}

type c09Case struct {
	Grid    string       `json:"grid"`
	ID      int          `json:"id"`
	Border  string       `json:"border"`
	Offset  int64        `json:"offset_units"` // >0 outside, <=0 inside (distance from the border in 1e-10 units)
	Ring    int          `json:"ring"`
	Index   int          `json:"index"`
	Ignore  bool         `json:"ignore_outside_grid"`
	Polygon geom.Polygon `json:"polygon"`
	Outside bool         `json:"reference_outside"`
	Got     string       `json:"got"`
}

func c09Grids() []c09Grid {
	var gs []c09Grid
	for _, o := range [][2]float64{{0, 0}, {-96, 32}} {
		for _, corner := range []tms20.CornerOfOrigin{tms20.BottomLeft, tms20.TopLeft} {
			for _, deepest := range []int{0, 2} {
				for _, tw := range []uint{1, 4} {
					px := 1.0
					g := grid.Synth(deepest, px, o[0], o[1], tw, corner)
					size := int64(16*tw) << uint(deepest)
					u := int64(1e10)
					gs = append(gs, c09Grid{Name: fmt.Sprintf("synth(o=%v,%s,deepest=%d,tw=%d)", o, corner, deepest, tw), TMS: g, ID: deepest,
						MinX: int64(o[0]) * u, MinY: int64(o[1]) * u, MaxX: int64(o[0])*u + size*u, MaxY: int64(o[1])*u + size*u, Pixel: u})
				}
			}
		}
	}
	rd, err := tms20.LoadEmbeddedTileMatrixSet("NetherlandsRDNewQuad")
	if err != nil {
		ev.HarnessError("RD: %v", err)
	}
	for _, id := range []int{0, 5, 14} {
		// extent from the document: origin (-285401.92, 903401.92) top left, 256 cells of 3440.64 at id 0
		gs = append(gs, c09Grid{Name: "NetherlandsRDNewQuad", TMS: rd, ID: id,
			MinX: -2854019200000000, MaxX: 5954019200000000, MinY: 225980800000000, MaxY: 9034019200000000,
			Pixel: 34406400000000 / 16 >> uint(id)})
	}
	// a grid whose extent does not divide evenly into pixels (the pixel size is truncated, so the pixel grid is a little
	// narrower than the extent): only vertices OUTSIDE are judged here - vertices inside the extent but beyond the last
	// pixel are finding F6 (C06).  The extent is the one the set's own MatrixBoundingBox reports, quantised as specified.
	wm, err := tms20.LoadEmbeddedTileMatrixSet("WebMercatorQuad")
	if err != nil {
		ev.HarnessError("WebMercatorQuad: %v", err)
	}
	bl, tr, err := wm.MatrixBoundingBox(0)
	if err != nil {
		ev.HarnessError("WebMercatorQuad: %v", err)
	}
	for _, id := range []int{14, 16} {
		minX, minY, maxX, maxY := quantise(bl[0]), quantise(bl[1]), quantise(tr[0]), quantise(tr[1])
		gs = append(gs, c09Grid{Name: "WebMercatorQuad", TMS: wm, ID: id, MinX: minX, MinY: minY, MaxX: maxX, MaxY: maxY,
			Pixel: (maxX - minX) >> uint(id+12), OutsideOnly: true})
	}
	return gs
}

func c09Run(r *ev.Run, shardI, shardN int) scopeReport {
	t0 := time.Now()
	rep := scopeReport{Scope: "border-offsets", Grid: "8+8 synthetic grids (two origins, both corners of origin, two depths, tile width 1 and 4) and NetherlandsRDNewQuad ids 0/5/14", Exhaustive: true, Extra: map[string]int64{}}
	n := 0
	for _, g := range c09Grids() {
		px := g.Pixel
		offsets := []int64{1, px - 1, px, px + 1, 3 * px, g.MaxX - g.MinX}
		for k := uint(1); k <= 36; k++ {
			offsets = append(offsets, int64(1)<<k)
		}
		for _, border := range []string{"left", "bottom", "right", "top"} {
			for _, off := range offsets {
				for _, side := range []int64{1, -1} { // outside, inside (negative control)
					if side < 0 && g.OutsideOnly {
						continue
					}
					for ringNo := 0; ringNo < 2; ringNo++ {
						ringLen := 4
						if ringNo == 1 {
							ringLen = 3
						}
						for idx := 0; idx < ringLen; idx++ {
							n++
							if n%shardN != shardI {
								continue
							}
							rep.States++
							c09One(r, &rep, g, border, off*side, ringNo, idx)
						}
					}
				}
			}
		}
	}
	// corners: the vertex is moved relative to both borders of a corner at once (outside both, or outside one and just inside the other)
	for _, g := range c09Grids() {
		px := g.Pixel
		ds := []int64{-1, 1, px - 1, px, px + 1, 3 * px}
		for _, bx := range []string{"left", "right"} {
			for _, by := range []string{"bottom", "top"} {
				for _, dx := range ds {
					for _, dy := range ds {
						if dx < 0 && dy < 0 {
							continue
						}
						if g.OutsideOnly && (dx < 0 || dy < 0) {
							continue
						}
						for ringNo := 0; ringNo < 2; ringNo++ {
							for idx := 0; idx < 4-ringNo; idx++ {
								n++
								if n%shardN != shardI {
									continue
								}
								rep.States++
								c09Two(r, &rep, g, bx, dx, by, dy, ringNo, idx)
							}
						}
					}
				}
			}
		}
	}
	// far away: "by any amount" - kilometres, beyond what the fixed-point form can hold (~9.2e8), no-data values of other
	// formats (largest float32 / float64) and infinity, beyond each border, every vertex position of shell and hole
	for _, g := range c09Grids() {
		for _, border := range []string{"left", "bottom", "right", "top"} {
			for _, m := range []float64{1e3, 1e6, 4e8, 5e8, 1e9, 1e10, 1e15, 1e300, math.MaxFloat32, math.MaxFloat64, math.Inf(1)} {
				for ringNo := 0; ringNo < 2; ringNo++ {
					for idx := 0; idx < 4-ringNo; idx++ {
						n++
						if n%shardN != shardI {
							continue
						}
						rep.States++
						c09Far(r, &rep, g, border, m, ringNo, idx)
					}
				}
			}
		}
	}
	// pairs: the outside vertex together with a second vertex ANYWHERE in the grid (a polygon may span the whole grid, so
	// whatever is remembered about earlier vertices must not excuse a later one): on the 16x16-pixel grids every in-grid
	// pixel x every pixel of the two-pixel frame around the grid x every position of the outside vertex in the ring
	for _, g := range c09Grids() {
		size := (g.MaxX - g.MinX) / g.Pixel
		if size != 16 {
			continue
		}
		for qy := int64(-2); qy < size+2; qy++ {
			for qx := int64(-2); qx < size+2; qx++ {
				if qx >= 0 && qx < size && qy >= 0 && qy < size {
					continue
				}
				for py := int64(0); py < size; py++ {
					for px := int64(0); px < size; px++ {
						n++
						if n%shardN != shardI {
							continue
						}
						rep.States++
						c09Pair(r, &rep, g, [2]int64{px, py}, [2]int64{qx, qy})
					}
				}
			}
		}
	}
	rep.Bound = "per grid: 4 borders x 11 far distances (1e3 .. 1e300 CRS units, largest float32/float64, infinity) x every vertex position; per 16x16-pixel grid: every in-grid pixel x every pixel of the two-pixel frame around the grid (144) as two vertices of a triangle (third vertex fixed), outside vertex at every ring position, as shell and as hole; per grid: 4 corners x 35 pairs of distances from the two borders (1 unit inside, 1 unit, pixel-1, pixel, pixel+1, 3 pixels outside) x every vertex position of shell and hole; and per grid: 4 borders x 42 distances (1, 2^1..2^36, pixel-1, pixel, pixel+1, 3 pixels, extent; in 1e-10 units) x {outside, inside} x every vertex position of shell (4) and hole (3) x both values of ignore-outside-grid"
	rep.Inputs = rep.States
	rep.States++
	rep.WallS = time.Since(t0).Seconds()
	return rep
}

func c09One(r *ev.Run, rep *scopeReport, g c09Grid, border string, dist int64, ringNo, idx int) {
	c09Two(r, rep, g, border, dist, "", 0, ringNo, idx)
}

// c09Two: the chosen vertex is moved relative to one border (border2 == "") or to the two borders of a corner
// (border in {left, right}, border2 in {bottom, top}); dist > 0 = outside, dist <= 0 = |dist| units inside.
func c09Two(r *ev.Run, rep *scopeReport, g c09Grid, border string, dist int64, border2 string, dist2 int64, ringNo, idx int) {
	px := g.Pixel
	// base polygon: a 6x6 pixel square with a triangular hole, hugging the border in question
	cx := (g.MinX + g.MaxX) / 2
	cy := (g.MinY + g.MaxY) / 2
	var x0, y0 int64
	switch border {
	case "left":
		x0, y0 = g.MinX+px/2, cy
	case "right":
		x0, y0 = g.MaxX-7*px, cy
	case "bottom":
		x0, y0 = cx, g.MinY+px/2
	case "top":
		x0, y0 = cx, g.MaxY-7*px
	}
	switch border2 { // corner: hug the second border as well
	case "bottom":
		y0 = g.MinY + px/2
	case "top":
		y0 = g.MaxY - 7*px
	}
	if g.MaxX-g.MinX < 16*px { // tiny grids (id 0 of RD has 4096 px; synthetic has >= 16)
		ev.HarnessError("grid too small")
	}
	f := func(u int64) float64 { return float64(u) / math.Pow(10, 10) }
	shell := [][2]int64{{x0, y0}, {x0 + 6*px, y0}, {x0 + 6*px, y0 + 6*px}, {x0, y0 + 6*px}}
	hole := [][2]int64{{x0 + 2*px, y0 + 2*px}, {x0 + 2*px, y0 + 4*px}, {x0 + 4*px, y0 + 2*px}}
	rings := [][][2]int64{shell, hole}
	// move the chosen vertex to the requested distance from the border (positive = outside)
	v := rings[ringNo][idx]
	switch border {
	case "left":
		v[0] = g.MinX - dist
	case "bottom":
		v[1] = g.MinY - dist
	case "right":
		v[0] = g.MaxX - 1 + dist // MaxX-1 is the last unit inside; dist>=1 outside starts at MaxX
	case "top":
		v[1] = g.MaxY - 1 + dist
	}
	if dist <= 0 { // inside control: |dist| units inside the border (0 = on the inclusive border / last inside unit)
		switch border {
		case "right":
			v[0] = g.MaxX - 1 + dist
		case "top":
			v[1] = g.MaxY - 1 + dist
		}
	}
	switch border2 {
	case "bottom":
		v[1] = g.MinY - dist2
	case "top":
		v[1] = g.MaxY - 1 + dist2
	}
	if border2 != "" {
		border = border2 + "-" + border
		if dist2 > dist {
			dist = dist2 // the larger of the two distances classifies the case
		}
	}
	rings[ringNo][idx] = v
	poly := make(geom.Polygon, 2)
	outside := false
	for i, rg := range rings {
		poly[i] = make([][2]float64, len(rg))
		for j, u := range rg {
			poly[i][j] = [2]float64{f(u[0]), f(u[1])}
			// the reference decides on the coordinate as quantised by the tool's specification
			qx, qy := quantise(poly[i][j][0]), quantise(poly[i][j][1])
			if qx < g.MinX || qx >= g.MaxX || qy < g.MinY || qy >= g.MaxY {
				outside = true
			}
		}
	}
	if outside {
		rep.Nontrivial++
	}
	// the id alone, and (where there is a shallower id) together with id 0 in both orders; keep-points-and-lines off and on
	idSets := [][]int{{g.ID}}
	if g.ID > 0 {
		idSets = append(idSets, []int{0, g.ID}, []int{g.ID, 0})
	}
	for _, ids := range idSets {
		for _, keep := range []bool{false, true} {
			c09Judge(r, rep, g, border, dist, ringNo, idx, poly, outside, ids, keep)
		}
	}
}

// c09Far: the base polygon of c09Two in the middle of the grid with one vertex moved m CRS units beyond a border
func c09Far(r *ev.Run, rep *scopeReport, g c09Grid, border string, m float64, ringNo, idx int) {
	px := g.Pixel
	f := func(u int64) float64 { return float64(u) / math.Pow(10, 10) }
	x0, y0 := (g.MinX+g.MaxX)/2, (g.MinY+g.MaxY)/2
	shell := [][2]float64{{f(x0), f(y0)}, {f(x0 + 6*px), f(y0)}, {f(x0 + 6*px), f(y0 + 6*px)}, {f(x0), f(y0 + 6*px)}}
	hole := [][2]float64{{f(x0 + 2*px), f(y0 + 2*px)}, {f(x0 + 2*px), f(y0 + 4*px)}, {f(x0 + 4*px), f(y0 + 2*px)}}
	poly := geom.Polygon{shell, hole}
	switch border {
	case "left":
		poly[ringNo][idx][0] = f(g.MinX) - m
	case "right":
		poly[ringNo][idx][0] = f(g.MaxX) + m
	case "bottom":
		poly[ringNo][idx][1] = f(g.MinY) - m
	case "top":
		poly[ringNo][idx][1] = f(g.MaxY) + m
	}
	rep.Nontrivial++
	c09Judge(r, rep, g, "far-"+border, 2*px, ringNo, idx, poly, true, []int{g.ID}, false)
}

// c09Pair: triangle over an in-grid pixel p, an outside pixel q of the frame and a fixed in-grid vertex; every rotation; as
// the shell, and as the second ring behind a fixed in-grid shell
func c09Pair(r *ev.Run, rep *scopeReport, g c09Grid, p, q [2]int64) {
	px := g.Pixel
	f := func(u int64) float64 { return float64(u) / math.Pow(10, 10) }
	at := func(c [2]int64, fx, fy int64) [2]float64 { // point inside pixel c at (fx/4, fy/4) of the pixel
		return [2]float64{f(g.MinX + c[0]*px + fx*px/4), f(g.MinY + c[1]*px + fy*px/4)}
	}
	// the outside vertex sits in its pixel on the side nearest to the grid (first frame ring: less than a pixel outside)
	fq := [2]int64{1, 1}
	if q[0] < 0 {
		fq[0] = 3
	}
	if q[1] < 0 {
		fq[1] = 3
	}
	tri := [][2]float64{at(p, 2, 2), at(q, fq[0], fq[1]), at([2]int64{8, 8}, 1, 1)}
	dist := int64(1)
	for _, c := range q {
		if c < -1 || c > 16 {
			dist = px
		}
	}
	rep.Nontrivial++
	for rot := 0; rot < 3; rot++ {
		ring := [][2]float64{tri[rot], tri[(rot+1)%3], tri[(rot+2)%3]}
		shellFixed := [][2]float64{at([2]int64{2, 2}, 1, 1), at([2]int64{13, 2}, 1, 1), at([2]int64{13, 13}, 1, 1), at([2]int64{2, 13}, 1, 1)}
		for ringNo, poly := range []geom.Polygon{{ring}, {shellFixed, ring}} {
			c09Judge(r, rep, g, "pair", dist, ringNo, (4-rot)%3, poly, true, []int{g.ID}, false)
		}
	}
}

func c09Judge(r *ev.Run, rep *scopeReport, g c09Grid, border string, dist int64, ringNo, idx int, poly geom.Polygon, outside bool, ids []int, keep bool) {
	px := g.Pixel
	var results [2]map[int][]geom.Polygon
	for k, ignore := range []bool{false, true} {
		cfg := snap.Config{IgnoreOutsideGrid: ignore, KeepPointsAndLines: keep}
		var res map[int][]geom.Polygon
		var pan any
		func() {
			defer func() { pan = recover() }()
			res = snap.SnapPolygon(poly, g.TMS, ids, cfg)
		}()
		rep.Calls++
		rep.Transitions++
		results[k] = res
		isOGE := false
		if err, ok := pan.(error); ok {
			oge := new(pointindex.OutsideGridError)
			isOGE = errors.As(err, oge)
		}
		got := fmt.Sprintf("ids=%v keep=%v panic=%v result-keys=%d", ids, keep, pan, len(res))
		mk := func() c09Case {
			return c09Case{Grid: g.Name, ID: g.ID, Border: border, Offset: dist, Ring: ringNo, Index: idx, Ignore: ignore, Polygon: poly, Outside: outside, Got: got}
		}
		sub := "lt-1px"
		if dist >= px {
			sub = "ge-1px"
		}
		switch {
		case outside && !ignore && !isOGE:
			r.Violation(fmt.Sprintf("outside-accepted:%s,%s", border, sub), fmt.Sprintf("%s: vertex %d units outside the %s border, no OutsideGridError panic (%s)", g.Name, dist, border, got), mk())
		case outside && ignore && (pan != nil || len(res) != 0):
			r.Violation(fmt.Sprintf("outside-not-ignored:%s,%s", border, sub), fmt.Sprintf("%s: vertex %d units outside the %s border with ignore-outside-grid: want empty result, got %s", g.Name, dist, border, got), mk())
		case !outside && pan != nil:
			r.Violation("inside-rejected:"+border, fmt.Sprintf("%s: all vertices inside (moved vertex %d units inside the %s border) but the call panicked: %v", g.Name, -dist, border, pan), mk())
		}
	}
	if !outside && results[0] != nil && !reflect.DeepEqual(results[0], results[1]) {
		r.Violation("ignore-flag-changes-inside-result", fmt.Sprintf("%s: ignore-outside-grid changes the result of an in-grid polygon", g.Name),
			c09Case{Grid: g.Name, ID: g.ID, Border: border, Offset: dist, Ring: ringNo, Index: idx, Polygon: poly})
	}
}

func init() {
	register(&Prop{ID: "C09", Scopes: func(bool) []Scope { return nil }, Judge: nil, Extras: []func(*ev.Run, int, int) scopeReport{c09Run},
		Rule: "state = (grid, id, border, distance, vertex position, ring); every combination of the bound is run through the real snap.SnapPolygon with both values of ignore-outside-grid; reference = half-open extent test on the coordinates quantised as specified (1e-10, truncating); non-trivial = the reference classifies the polygon as outside"})
}
