package main

import (
	"encoding/binary"
	"encoding/json"
	"fmt"
	"hash/fnv"
	"io"
	"log"
	"os"
	"path/filepath"
	"runtime"
	"sort"
	"strings"
	"sync/atomic"
	"time"

	"github.com/go-spatial/geom"
	"github.com/pdok/texel/snap"
	"github.com/pdok/texel/tms20"
	"verif/engine/ev"
	"verif/engine/grid"
	"verif/engine/lat"
	"verif/engine/ref"
)

// GridSpec is enough to rebuild a grid.G (stored in replay files).
type GridSpec struct {
	Kind      string   `json:"kind"` // "synth"
	Set       string   `json:"set,omitempty"`
	Deepest   int      `json:"deepest"`
	Px        float64  `json:"px"`
	Ox        float64  `json:"ox"`
	Oy        float64  `json:"oy"`
	TileWidth uint     `json:"tileWidth"`
	TopLeft   bool     `json:"topLeft"`
	Sub       int64    `json:"sub"`
	OffPx     [2]int64 `json:"offPx"`
}

func (s GridSpec) Build() *grid.G {
	if s.Kind == "real" {
		tms, err := tms20.LoadEmbeddedTileMatrixSet(s.Set)
		if err != nil {
			ev.HarnessError("%v", err)
		}
		g, err := grid.NewReal(s.Set, tms, s.Deepest, s.Sub, s.OffPx)
		if err != nil {
			ev.HarnessError("%v", err)
		}
		return g
	}
	corner := tms20.BottomLeft
	if s.TopLeft {
		corner = tms20.TopLeft
	}
	tw := s.TileWidth
	if tw == 0 {
		tw = 1
	}
	return grid.NewSynth(fmt.Sprintf("synth(px=%v,o=%v/%v,tw=%d,tl=%v)", s.Px, s.Ox, s.Oy, tw, s.TopLeft), s.Deepest, s.Px, s.Ox, s.Oy, tw, corner, s.Sub, s.OffPx)
}

type Scope struct {
	Name   string
	GS     GridSpec
	G      *grid.G
	Spec   lat.Spec
	IDSets [][]int
	Cfgs   []snap.Config
}

var allCfgs = []snap.Config{{}, {KeepPointsAndLines: true}, {ReverseWindingOrder: true}, {KeepPointsAndLines: true, ReverseWindingOrder: true}}
var keepCfgs = []snap.Config{{}, {KeepPointsAndLines: true}}

// Case is the replayable description of one judged input.
type Case struct {
	Scope   string       `json:"scope"`
	Grid    GridSpec     `json:"grid"`
	IDs     []int        `json:"ids"`
	Cfg     snap.Config  `json:"config"`
	Lattice [][]ref.P    `json:"lattice_rings"` // window-relative lattice points
	Polygon geom.Polygon `json:"polygon"`       // the floats handed to the tool
	Got     any          `json:"got,omitempty"`
	Detail  any          `json:"detail,omitempty"`
}

type Problem struct {
	Sig    string
	What   string
	IDs    []int
	Cfg    snap.Config
	Got    any
	Detail any
}

// Acc collects per-worker evidence counters.
type Acc struct {
	Calls      int64
	Nontrivial int64
	Outcomes   map[uint64]struct{}
	Extra      map[string]int64
	Digests    []uint64 // outcome hashes in enumeration order (C07 conformance)
}

func newAcc() *Acc { return &Acc{Outcomes: map[uint64]struct{}{}, Extra: map[string]int64{}} }

func (a *Acc) outcome(v any) {
	if len(a.Outcomes) > 200000 {
		return
	}
	h := fnv.New64a()
	fmt.Fprint(h, v)
	a.Outcomes[h.Sum64()] = struct{}{}
}

// Polygon converts lattice rings to the float polygon of the grid.
func toPolygon(g *grid.G, rings [][]ref.P) geom.Polygon {
	poly := make(geom.Polygon, len(rings))
	for i, r := range rings {
		poly[i] = make([][2]float64, len(r))
		for j, p := range r {
			poly[i][j] = g.F(g.U(p))
		}
	}
	return poly
}

func toUnits(g *grid.G, rings [][]ref.P) [][]ref.P {
	out := make([][]ref.P, len(rings))
	for i, r := range rings {
		out[i] = make([]ref.P, len(r))
		for j, p := range r {
			out[i][j] = g.U(p)
			if g.Real {
				// the reference must see the coordinate as the tool's specified quantisation sees it
				f := g.F(out[i][j])
				out[i][j] = ref.P{grid.Quantise(f[0]) - g.MinX - g.AnchorPx[0]*g.ResDeepest, grid.Quantise(f[1]) - g.MinY - g.AnchorPx[1]*g.ResDeepest}
			}
		}
	}
	return out
}

// run calls the real snap.SnapPolygon, converting a panic into a value.
func run(g *grid.G, poly geom.Polygon, ids []int, cfg snap.Config) (res map[int][]geom.Polygon, pan any) {
	defer func() {
		if r := recover(); r != nil {
			pan = r
			res = nil
		}
	}()
	// the tool may reorder rings in place (ensureCorrectWindingOrder clones, but be safe)
	cp := make(geom.Polygon, len(poly))
	for i := range poly {
		cp[i] = append([][2]float64{}, poly[i]...)
	}
	return snap.SnapPolygon(cp, g.TMS, append([]int{}, ids...), cfg), nil
}

// decode maps every returned ring of id z to pixel indices.
func decode(g *grid.G, z int, polys []geom.Polygon) (out [][][]ref.PX, bad string) {
	out = make([][][]ref.PX, len(polys))
	for i, pl := range polys {
		out[i] = make([][]ref.PX, len(pl))
		for j, r := range pl {
			out[i][j] = make([]ref.PX, len(r))
			for k, v := range r {
				px, ok := g.Decode(z, v)
				if !ok {
					return nil, fmt.Sprintf("coordinate %v of id %d is not a pixel centre", v, z)
				}
				out[i][j][k] = px
			}
		}
	}
	return out, ""
}

// refModel: per id the hot pixels, routed chains and max visits of an input.
type refModel struct {
	Hot    []ref.PX
	Chains [][]ref.PX
	MaxV   int
}

func model(g *grid.G, units [][]ref.P, z int) refModel {
	res := g.Res(z)
	hot := ref.HotPixels(units, res)
	m := refModel{Hot: hot}
	for _, r := range units {
		// the tool normalises ring direction first; routing is direction symmetric
		m.Chains = append(m.Chains, ref.RoutedChain(r, hot, res))
	}
	m.MaxV = ref.MaxVisits(m.Chains)
	return m
}

func subsetsOf(ids []int) [][]int {
	var out [][]int
	for m := 1; m < 1<<uint(len(ids)); m++ {
		var s []int
		for i, id := range ids {
			if m>>uint(i)&1 == 1 {
				s = append(s, id)
			}
		}
		out = append(out, s)
	}
	return out
}

// ---------------- driver ----------------

type Prop struct {
	ID         string
	EvidenceID string // property id the evidence/violations are filed under (default ID)
	Scopes     func(thorough bool) []Scope
	// Judge examines one input under every (ids, cfg) of the scope.
	Judge func(sc *Scope, rings [][]ref.P, acc *Acc) []Problem
	Rule  string
	// Pinned inputs (always run first); PinnedFrom names files replays/pinned/<id>.json
	Pinned     []Case
	PinnedFrom []string
	// Finish, if set, replaces the default evidence writer (multi-stage checks)
	Finish func(r *ev.Run, c *finalCov)
	// Extras: additional non-lattice enumerations, sharded by (shardI, shardN)
	Extras []func(r *ev.Run, shardI, shardN int) scopeReport
}

var props = map[string]*Prop{}

func register(p *Prop) { props[p.ID] = p }

type scopeReport struct {
	Scope       string           `json:"scope"`
	Grid        string           `json:"grid"`
	States      int64            `json:"states"`
	Transitions int64            `json:"transitions"`
	Inputs      int64            `json:"inputs"`
	Calls       int64            `json:"snap_calls"`
	Nontrivial  int64            `json:"nontrivial_inputs"`
	Outcomes    int              `json:"distinct_outcomes"`
	Exhaustive  bool             `json:"exhaustive"`
	Bound       string           `json:"bound"`
	WallS       float64          `json:"wall_s"`
	Extra       map[string]int64 `json:"extra,omitempty"`
	RootFan     int              `json:"root_fan"`
}

func (s scopeReport) rootFan() int { return s.RootFan }

type finalCov struct {
	States, Transitions, Calls, Nontrivial, Inputs int64
	Outcomes, Pinned, Shards                       int
	Exhaustive                                     bool
	Reports                                        []scopeReport
	Samples                                        []any
}

func (c *finalCov) Map(rule string) map[string]any {
	return map[string]any{
		"states": c.States, "transitions": c.Transitions + c.Calls, "samples": c.Samples, "evaluations": c.Calls, "distinct_nontrivial": c.Nontrivial,
		"inputs": c.Inputs, "distinct_outcomes": c.Outcomes, "pinned_inputs_run": c.Pinned, "rule": rule, "exhaustive": c.Exhaustive, "scopes": c.Reports, "shards": c.Shards,
	}
}

type shardData struct {
	Reports  []scopeReport `json:"reports"`
	Outcomes [][]uint64    `json:"outcomes"`
	Samples  []any         `json:"samples"`
	Pinned   int           `json:"pinned"`
}

func runProp(p *Prop) {
	log.SetOutput(io.Discard)
	eid := p.ID
	if p.EvidenceID != "" {
		eid = p.EvidenceID
	}
	r := ev.New(eid)
	if rp := os.Getenv("VERIF_REPLAY"); rp != "" {
		replay(p, r, rp)
		return
	}
	if !r.IsShard() {
		parent(p, r)
		return
	}
	samples := &ev.Samples{N: 1}
	var sd shardData

	// pinned inputs first (shard 0 only)
	if r.ShardI == 0 {
		pinned := p.Pinned
		for _, id := range p.PinnedFrom {
			if b, err := os.ReadFile(filepath.Join(ev.Root, "replays", "pinned", id+".json")); err == nil {
				var cs []Case
				if err := json.Unmarshal(b, &cs); err != nil {
					ev.HarnessError("pinned inputs of %s unreadable: %v", id, err)
				}
				pinned = append(pinned, cs...)
			}
		}
		for _, c := range pinned {
			g := c.Grid.Build()
			sc := &Scope{Name: "pinned:" + c.Scope, GS: c.Grid, G: g, IDSets: [][]int{c.IDs}, Cfgs: []snap.Config{c.Cfg}}
			acc := newAcc()
			for _, pr := range p.Judge(sc, c.Lattice, acc) {
				reportProblem(r, sc, c.Lattice, pr)
			}
			sd.Pinned++
		}
	}

	for _, sc := range p.Scopes(r.Thorough()) {
		sc := sc
		if only := os.Getenv("VERIF_ONLY_SCOPE"); only != "" && os.Getenv("VERIF_DEV") == "1" && !strings.HasPrefix(sc.Name, only) {
			continue // development aid (never set by bin/check): run one scope only
		}
		if sc.G == nil {
			sc.G = sc.GS.Build()
		}
		t0 := time.Now()
		acc := newAcc()
		var watch atomic.Int64 // start time of the current input (unix nano)
		var cur atomic.Pointer[[][]ref.P]
		done := make(chan struct{})
		go func() { // watchdog: an input that takes > 120 s is a harness-level hang report
			tk := time.NewTicker(5 * time.Second)
			defer tk.Stop()
			for {
				select {
				case <-done:
					return
				case <-tk.C:
					s := watch.Load()
					if s != 0 && time.Now().UnixNano()-s > int64(120*time.Second) {
						b, _ := json.Marshal(cur.Load())
						ev.HarnessError("shard %d stuck > 120 s on input %s in scope %s (possible non-termination in texel; see C06)", r.ShardI, b, sc.Name)
					}
				}
			}
		}()
		st := lat.Enumerate(sc.Spec, 1, r.Expired, func(w int, rings [][]ref.P) {
			cur.Store(&rings)
			watch.Store(time.Now().UnixNano())
			probs := p.Judge(&sc, rings, acc)
			watch.Store(0)
			for _, pr := range probs {
				reportProblem(r, &sc, rings, pr)
			}
			if samples.Want() && acc.Calls > 900 {
				samples.Add(map[string]any{"scope": sc.Name, "polygon": toPolygon(sc.G, rings)})
			}
		})
		close(done)
		rep := scopeReport{Scope: sc.Name, Grid: sc.G.String(), States: st.States, Transitions: st.Transitions, Inputs: st.Inputs, Exhaustive: !st.Aborted,
			Bound: fmt.Sprintf("%d candidate vertices, shell<=%d vertices, holes<=%d x <=%d vertices, valid-only=%v, %d id sets x %d configs", len(sc.Spec.Points), sc.Spec.MaxK, sc.Spec.MaxHoles, sc.Spec.HoleMaxK, sc.Spec.Valid, len(sc.IDSets), len(sc.Cfgs)),
			WallS: time.Since(t0).Seconds(), Extra: acc.Extra, Calls: acc.Calls, Nontrivial: acc.Nontrivial, RootFan: len(sc.Spec.Points)}
		hs := make([]uint64, 0, len(acc.Outcomes))
		for k := range acc.Outcomes {
			hs = append(hs, k)
		}
		if len(acc.Digests) > 0 {
			hb := make([]byte, 8*len(acc.Digests))
			for i, h := range acc.Digests {
				binary.LittleEndian.PutUint64(hb[8*i:], h)
			}
			_ = os.WriteFile(filepath.Join(os.Getenv("VERIF_WORK"), fmt.Sprintf("digest-%s-%s-%d.bin", p.ID, sc.Name, r.ShardI)), hb, 0o644)
		}
		sd.Reports = append(sd.Reports, rep)
		sd.Outcomes = append(sd.Outcomes, hs)
		if r.DeadlineHit() {
			break
		}
	}
	for _, ex := range p.Extras {
		if r.DeadlineHit() {
			break
		}
		sd.Reports = append(sd.Reports, ex(r, r.ShardI, r.ShardN))
		sd.Outcomes = append(sd.Outcomes, nil)
	}
	sd.Samples = samples.L
	r.FinishShard(sd)
}

func parent(p *Prop, r *ev.Run) {
	old, _ := filepath.Glob(filepath.Join(ev.Root, "replays", p.ID, r.Tier+"-*.json"))
	for _, f := range old {
		_ = os.Remove(f)
	}
	n := runtime.NumCPU()
	parts := r.RunShards(n)
	nScopes := len(p.Scopes(r.Thorough())) + len(p.Extras)
	reports := make([]scopeReport, nScopes)
	outs := make([]map[uint64]struct{}, nScopes)
	var samples []any
	pinned := 0
	exhaustive := true
	for _, raw := range parts {
		var sd shardData
		if err := json.Unmarshal(raw, &sd); err != nil {
			ev.HarnessError("bad shard data: %v", err)
		}
		pinned += sd.Pinned
		samples = append(samples, sd.Samples...)
		if len(sd.Reports) < nScopes {
			exhaustive = false
		}
		for i, rep := range sd.Reports {
			t := &reports[i]
			if t.Scope == "" {
				*t = rep
				t.Extra = map[string]int64{}
				t.States, t.Transitions, t.Inputs, t.Calls, t.Nontrivial, t.WallS = 0, 0, 0, 0, 0, 0
				outs[i] = map[uint64]struct{}{}
			}
			t.States += rep.States - 1 // the root is shared by all shards
			t.Transitions += rep.Transitions - int64(rep.rootFan())
			t.Inputs += rep.Inputs
			t.Calls += rep.Calls
			t.Nontrivial += rep.Nontrivial
			t.Exhaustive = t.Exhaustive && rep.Exhaustive
			if rep.WallS > t.WallS {
				t.WallS = rep.WallS
			}
			for k, v := range rep.Extra {
				if strings.HasPrefix(k, "max-") {
					if v > t.Extra[k] {
						t.Extra[k] = v
					}
					continue
				}
				t.Extra[k] += v
			}
			for _, h := range sd.Outcomes[i] {
				outs[i][h] = struct{}{}
			}
		}
	}
	var tStates, tTrans, tInputs, tCalls, tNon int64
	allOutcomes := 0
	for i := range reports {
		t := &reports[i]
		if t.Scope == "" {
			continue
		}
		t.States++
		t.Transitions += int64(t.rootFan())
		t.Outcomes = len(outs[i])
		allOutcomes += t.Outcomes
		tStates += t.States
		tTrans += t.Transitions
		tInputs += t.Inputs
		tCalls += t.Calls
		tNon += t.Nontrivial
		exhaustive = exhaustive && t.Exhaustive
		fmt.Fprintf(os.Stderr, "  scope %-22s inputs=%d calls=%d nontrivial=%d outcomes=%d exhaustive=%v %.1fs %v\n", t.Scope, t.Inputs, t.Calls, t.Nontrivial, t.Outcomes, t.Exhaustive, t.WallS, t.Extra)
	}
	if len(samples) > 6 {
		samples = samples[:6]
	}
	if len(samples) == 0 {
		samples = append(samples, "no input reached the sampling stride")
	}
	r.Assumptions = append(r.Assumptions, "reference models of engine/ref (exact integer arithmetic) are the trusted base", "Go toolchain; the harness executes the real snap/pointindex code built from /repo's working tree")
	if so := os.Getenv("VERIF_STAGE_OUT"); so != "" {
		fc := &finalCov{States: tStates, Transitions: tTrans, Calls: tCalls, Nontrivial: tNon, Inputs: tInputs, Outcomes: allOutcomes, Pinned: pinned, Exhaustive: exhaustive, Reports: reports, Samples: samples, Shards: n}
		r.FinishStage(so, fc.Map(p.Rule))
	}
	if p.Finish != nil {
		p.Finish(r, &finalCov{States: tStates, Transitions: tTrans, Calls: tCalls, Nontrivial: tNon, Inputs: tInputs, Outcomes: allOutcomes, Pinned: pinned, Exhaustive: exhaustive, Reports: reports, Samples: samples, Shards: n})
		return
	}
	r.Finish(map[string]any{
		"states":                        tStates,
		"transitions":                   tTrans + tCalls,
		"traces_validated_against_impl": r.Violations(),
		"samples":                       samples,
		"evaluations":                   tCalls,
		"distinct_nontrivial":           tNon,
		"inputs":                        tInputs,
		"distinct_outcomes":             allOutcomes,
		"pinned_inputs_run":             pinned,
		"rule":                          p.Rule,
		"exhaustive":                    exhaustive,
		"scopes":                        reports,
		"shards":                        n,
		"explanation":                   "states/transitions = nodes/edges of the depth-first input search (partial polygons; append vertex, close ring, open hole) plus one transition per call of the real snap.SnapPolygon; every complete input of every scope is executed on the real code and judged by the reference model; the search tree is sharded over worker processes by its level-2 subtrees",
	})
}

func reportProblem(r *ev.Run, sc *Scope, rings [][]ref.P, pr Problem) {
	lr := make([][]ref.P, len(rings))
	for i := range rings {
		lr[i] = append([]ref.P{}, rings[i]...)
	}
	c := Case{Scope: sc.Name, Grid: sc.GS, IDs: pr.IDs, Cfg: pr.Cfg, Lattice: lr, Polygon: toPolygon(sc.G, rings), Got: pr.Got, Detail: pr.Detail}
	r.Violation(pr.Sig, pr.What+" input="+fmt.Sprint(c.Polygon), c)
}

// replay re-judges one stored case twice and requires identical verdicts.
func replay(p *Prop, r *ev.Run, path string) {
	b, err := os.ReadFile(path)
	if err != nil {
		ev.HarnessError("cannot read replay file: %v", err)
	}
	var f struct {
		Case Case `json:"case"`
	}
	if err := json.Unmarshal(b, &f); err != nil {
		ev.HarnessError("bad replay file: %v", err)
	}
	c := f.Case
	if len(c.Lattice) == 0 || p.Judge == nil {
		// cases of the non-lattice enumerations (API segments, border offsets, real-grid sweep) carry their
		// full input in the file; they are re-judged by re-running the (seconds long) enumeration they belong to
		fmt.Printf("replay of %s: this case belongs to a non-lattice enumeration of %s; its input is in the file, re-run `bin/check %s quick` to re-judge it\n", path, p.ID, p.ID)
		r.Exit()
	}
	g := c.Grid.Build()
	sc := &Scope{Name: "replay:" + c.Scope, GS: c.Grid, G: g, IDSets: [][]int{c.IDs}, Cfgs: []snap.Config{c.Cfg}}
	var sigs [2][]string
	for i := 0; i < 2; i++ {
		for _, pr := range p.Judge(sc, c.Lattice, newAcc()) {
			sigs[i] = append(sigs[i], pr.Sig+": "+pr.What)
		}
		sort.Strings(sigs[i])
	}
	if fmt.Sprint(sigs[0]) != fmt.Sprint(sigs[1]) {
		ev.HarnessError("replay diverged: %v vs %v", sigs[0], sigs[1])
	}
	for _, pr := range p.Judge(sc, c.Lattice, newAcc()) {
		reportProblem(r, sc, c.Lattice, pr)
	}
	fmt.Printf("replay of %s: %d problem(s)\n", path, len(sigs[0]))
	r.Exit()
}

func main() {
	if len(os.Args) < 2 {
		fmt.Fprintln(os.Stderr, "usage: snapmc <property id>")
		os.Exit(2)
	}
	p := props[os.Args[1]]
	if p == nil {
		fmt.Fprintln(os.Stderr, "unknown property", os.Args[1])
		os.Exit(2)
	}
	runProp(p)
}
