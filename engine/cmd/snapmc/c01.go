package main

import (
	"fmt"
	"math"

	"github.com/go-spatial/geom"
	"verif/engine/grid"

	"github.com/pdok/texel/snap"
	"verif/engine/lat"
	"verif/engine/ref"
)

// edgesOf collects every boundary edge of the decoded geometries of one id:
// closing edges included, a 2-vertex ring contributes one edge.
func edgesOf(dec [][][]ref.PX) [][2]ref.PX {
	var edges [][2]ref.PX
	for _, pl := range dec {
		for _, r := range pl {
			m := len(r)
			switch {
			case m == 2:
				edges = append(edges, [2]ref.PX{r[0], r[1]})
			case m >= 3:
				for i := 0; i < m; i++ {
					edges = append(edges, [2]ref.PX{r[i], r[(i+1)%m]})
				}
			}
		}
	}
	return edges
}

func firstCrossing(edges [][2]ref.PX) (a, b [2]ref.PX, found bool) {
	for i := range edges {
		for j := i + 1; j < len(edges); j++ {
			if ref.ProperCross(edges[i][0], edges[i][1], edges[j][0], edges[j][1]) {
				return edges[i], edges[j], true
			}
		}
	}
	return
}

// nontrivial: routing inserted a vertex or some centre is visited twice (deepest id of the set)
func nontrivialInput(sc *Scope, units [][]ref.P, z int) bool {
	if sc.G.Real && sc.G.ResDeepest > 1<<30 {
		return true // coarse real-grid blocks: every input counts (the int64 reference router would overflow)
	}
	m := model(sc.G, units, z)
	if m.MaxV >= 2 {
		return true
	}
	for i, r := range units {
		if len(m.Chains[i]) != len(r) {
			return true
		}
	}
	return false
}

func judgeC01(sc *Scope, rings [][]ref.P, acc *Acc) []Problem {
	var probs []Problem
	units := toUnits(sc.G, rings)
	poly := toPolygon(sc.G, rings)
	if nontrivialInput(sc, units, sc.G.Deepest) {
		acc.Nontrivial++
	}
	for _, ids := range sc.IDSets {
		for _, cfg := range sc.Cfgs {
			res, pan := run(sc.G, poly, ids, cfg)
			acc.Calls++
			if pan != nil {
				acc.Extra["panicked(C06)"]++
				continue
			}
			acc.outcome(res)
			for z, polys := range res {
				dec, bad := decode(sc.G, z, polys)
				if bad != "" {
					acc.Extra["undecodable(C03)"]++
					// coordinates that are no pixel centres of this id are C03's finding, but edges must not cross
					// whatever their vertices are: on the synthetic grids every coordinate the tool can produce is a
					// multiple of 1/16 pixel, so the crossing test is still exact
					if fine, ok := decodeSixteenths(sc.G, polys); ok {
						if ea, eb, found := firstCrossing(edgesOf(fine)); found {
							probs = append(probs, Problem{Sig: "crossing:off-grid-coordinates", What: fmt.Sprintf("id %d: edges %v and %v cross (sixteenths of a deepest pixel; the result also has coordinates that are no pixel centres of this id)", z, ea, eb), IDs: ids, Cfg: cfg, Got: res})
						}
					}
					continue
				}
				if ea, eb, found := firstCrossing(edgesOf(dec)); found {
					sig := "crossing:coarse-real-grid"
					if !(sc.G.Real && sc.G.ResDeepest > 1<<30) {
						m := model(sc.G, units, z)
						sig = fmt.Sprintf("crossing:routed-centre-visits=%d", m.MaxV)
						if m.MaxV >= 3 {
							// the recorded finding F5 is narrower than "any crossing of a heavily collapsing polygon":
							// one of the two crossing edges must be an edge invented by spike removal (not a routed
							// edge or straight run of routed edges); two genuinely routed edges that cross are a
							// different defect and are reported
							if !ref.IsRun(m.Chains, ea[0], ea[1]) || !ref.IsRun(m.Chains, eb[0], eb[1]) {
								sig = "F5:crossing-by-invented-edge,routed-centre-visits>=3"
							} else {
								sig = "crossing-of-routed-edges:routed-centre-visits>=3"
							}
						}
					}
					probs = append(probs, Problem{Sig: sig, What: fmt.Sprintf("id %d: edges %v and %v cross (pixel indices)", z, ea, eb), IDs: ids, Cfg: cfg, Got: res})
				}
			}
		}
	}
	return probs
}

// decodeSixteenths maps every coordinate of a result on a synthetic grid to sixteenths of a deepest pixel (exact or not ok)
func decodeSixteenths(g *grid.G, polys []geom.Polygon) ([][][]ref.PX, bool) {
	if g.Real {
		return nil, false
	}
	out := make([][][]ref.PX, len(polys))
	for i, pl := range polys {
		out[i] = make([][]ref.PX, len(pl))
		for j, r := range pl {
			out[i][j] = make([]ref.PX, len(r))
			for k, v := range r {
				fx, fy := (v[0]-g.Ox)/g.Px*16, (v[1]-g.Oy)/g.Px*16
				if fx != math.Floor(fx) || fy != math.Floor(fy) || math.Abs(fx) > 1e15 || math.Abs(fy) > 1e15 {
					return nil, false
				}
				out[i][j][k] = ref.PX{int64(fx), int64(fy)}
			}
		}
	}
	return out, true
}

func synthGS(deepest int, sub int64, off [2]int64) GridSpec {
	return GridSpec{Kind: "synth", Deepest: deepest, Px: 1, Sub: sub, OffPx: off, TileWidth: 1}
}

func scopesValid(thorough bool) []Scope {
	k := func(q, t int) int {
		if thorough {
			return t
		}
		return q
	}
	one := [][]int{{0}}
	scs := []Scope{
		{Name: "L-half-2", GS: synthGS(0, 2, [2]int64{7, 7}), Spec: lat.Spec{Points: lat.Window(2, 2, 2), MaxK: k(5, 6), Valid: true}, IDSets: one, Cfgs: allCfgs},
		{Name: "L-half-3", GS: synthGS(0, 2, [2]int64{6, 6}), Spec: lat.Spec{Points: lat.Window(3, 3, 2), MaxK: k(4, 5), Valid: true}, IDSets: one, Cfgs: keepCfgs},
		{Name: "L-quarter-2", GS: synthGS(0, 4, [2]int64{7, 7}), Spec: lat.Spec{Points: lat.Window(2, 2, 4), MaxK: k(3, 4), Valid: true}, IDSets: one, Cfgs: keepCfgs},
		{Name: "L-holes-2", GS: synthGS(0, 2, [2]int64{7, 7}), Spec: lat.Spec{Points: lat.Window(2, 2, 2), MaxK: 4, Valid: true, MaxHoles: k(1, 2), HoleMaxK: k(3, 4)}, IDSets: one, Cfgs: keepCfgs},
		// vertices on the pixel centres of a 4x4 window only: nothing collapses, shells and holes come back exactly as routed
		{Name: "L-centres-4-holes", GS: synthGS(0, 2, [2]int64{6, 6}), Spec: lat.Spec{Points: lat.Centres(4, 4), MaxK: 4, Valid: true, MaxHoles: 1, HoleMaxK: 3}, IDSets: one, Cfgs: keepCfgs},
		{Name: "L-multi", GS: synthGS(2, 2, [2]int64{28, 28}), Spec: lat.Spec{Points: scale(lat.Window(2, 2, 2), 4), MaxK: k(4, 5), Valid: true}, IDSets: subsetsOf([]int{0, 1, 2}), Cfgs: keepCfgs},
	}
	// blocks of the real grids the property names (fine levels: pixel sizes small enough for int64 reference arithmetic)
	scs = append(scs,
		Scope{Name: "R-half-2:NetherlandsRDNewQuad-z14", GS: realGS("NetherlandsRDNewQuad", 14, 2, 155000, 463000), Spec: lat.Spec{Points: lat.Window(2, 2, 2), MaxK: k(3, 5), Valid: true}, IDSets: [][]int{{14}}, Cfgs: keepCfgs},
		Scope{Name: "R-half-2:WebMercatorQuad-z17", GS: realGS("WebMercatorQuad", 17, 2, 550000.1, 6800000.2), Spec: lat.Spec{Points: lat.Window(2, 2, 2), MaxK: k(3, 5), Valid: true}, IDSets: [][]int{{17}}, Cfgs: keepCfgs},
		Scope{Name: "R-half-2:NetherlandsRDNewQuad-z16", GS: realGS("NetherlandsRDNewQuad", 16, 2, 250000.5, 600000.5), Spec: lat.Spec{Points: lat.Window(2, 2, 2), MaxK: k(3, 5), Valid: true}, IDSets: [][]int{{16}}, Cfgs: keepCfgs},
		Scope{Name: "R-holes-2:WebMercatorQuad-z17", GS: realGS("WebMercatorQuad", 17, 2, 550000.1, 6800000.2), Spec: lat.Spec{Points: lat.Window(2, 2, 2), MaxK: 4, Valid: true, MaxHoles: 1, HoleMaxK: 3}, IDSets: [][]int{{17}}, Cfgs: keepCfgs},
		Scope{Name: "R-multi:NetherlandsRDNewQuad-z12-14", GS: realGS("NetherlandsRDNewQuad", 14, 2, 20000.3, 380000.7), Spec: lat.Spec{Points: scale(lat.Window(2, 2, 2), 4), MaxK: k(3, 4), Valid: true}, IDSets: [][]int{{12, 13, 14}, {14}, {12, 14}}, Cfgs: keepCfgs},
	)
	// placements: the same small searches at the origin and at the far corner of the grid (the scopes above sit around the
	// root centre): pixel address 0, the last pixel address, Z-order keys shared between levels, borders of the extent
	scs = append(scs,
		Scope{Name: "L-half-2@origin", GS: synthGS(0, 2, [2]int64{0, 0}), Spec: lat.Spec{Points: lat.Window(2, 2, 2), MaxK: 4, Valid: true}, IDSets: one, Cfgs: keepCfgs},
		Scope{Name: "L-half-2@far-corner", GS: synthGS(0, 2, [2]int64{14, 14}), Spec: lat.Spec{Points: below(lat.Window(2, 2, 2), 4), MaxK: 4, Valid: true}, IDSets: one, Cfgs: keepCfgs},
		Scope{Name: "L-multi@origin", GS: synthGS(2, 2, [2]int64{0, 0}), Spec: lat.Spec{Points: scale(lat.Window(2, 2, 2), 4), MaxK: k(3, 4), Valid: true}, IDSets: subsetsOf([]int{0, 1, 2}), Cfgs: keepCfgs},
		Scope{Name: "L-multi@far-corner", GS: synthGS(2, 2, [2]int64{56, 56}), Spec: lat.Spec{Points: below(scale(lat.Window(2, 2, 2), 4), 16), MaxK: k(3, 4), Valid: true}, IDSets: subsetsOf([]int{0, 1, 2}), Cfgs: keepCfgs},
		Scope{Name: "R-half-2:NetherlandsRDNewQuad-z14-negative-x", GS: realGS("NetherlandsRDNewQuad", 14, 2, -43.84, 300107.2), Spec: lat.Spec{Points: lat.Window(2, 2, 2), MaxK: k(3, 4), Valid: true}, IDSets: [][]int{{14}}, Cfgs: keepCfgs},
		Scope{Name: "R-half-2:WebMercatorQuad-z17-negative-xy", GS: realGS("WebMercatorQuad", 17, 2, -550000.1, -6800000.2), Spec: lat.Spec{Points: lat.Window(2, 2, 2), MaxK: k(3, 4), Valid: true}, IDSets: [][]int{{17}}, Cfgs: keepCfgs},
		Scope{Name: "R-half-2:WebMercatorQuad-z20", GS: realGS("WebMercatorQuad", 20, 2, 550000.1, 6800000.2), Spec: lat.Spec{Points: lat.Window(2, 2, 2), MaxK: k(3, 4), Valid: true}, IDSets: [][]int{{20}}, Cfgs: keepCfgs},
	)
	// families of larger polygons (pinched necks with holes, lake + ditch, C-shapes): see families.go
	scs = append(scs, familyScopes(thorough)...)
	if thorough {
		scs = append(scs,
			Scope{Name: "L-strip-4x1", GS: synthGS(0, 4, [2]int64{6, 7}), Spec: lat.Spec{Points: lat.Window(4, 1, 4), MaxK: 5, Valid: true}, IDSets: one, Cfgs: keepCfgs},
			Scope{Name: "L-strip-1x4", GS: synthGS(0, 4, [2]int64{7, 6}), Spec: lat.Spec{Points: lat.Window(1, 4, 4), MaxK: 5, Valid: true}, IDSets: one, Cfgs: keepCfgs},
			// largest scope last: if the thorough deadline cuts it short, everything before it is complete
			Scope{Name: "L-holes-3", GS: synthGS(0, 2, [2]int64{6, 6}), Spec: lat.Spec{Points: lat.Window(3, 3, 2), MaxK: 4, Valid: true, MaxHoles: 1, HoleMaxK: 3}, IDSets: one, Cfgs: keepCfgs},
		)
	}
	return scs
}

// scopesC01: the common valid scopes plus the quadrant-border family on a coarse real grid (no
// reference router there: its int64 arithmetic would overflow; C01's oracle does not need it)
func scopesC01(thorough bool) []Scope {
	scs := append(scopesValid(thorough), borderScopes(thorough)...)
	// several ids requested together on the FINE lattice: a 2x2 (thorough 3x2) window of pixels of the finest id that lies
	// inside one pixel of the coarsest id, polygons of up to five vertices (a crossing needs an edge and a vertex of
	// another, non-adjacent part: at least five vertices)
	w := lat.Window(2, 2, 2)
	if thorough {
		w = lat.Window(3, 2, 2)
	}
	scs = append(scs, Scope{Name: "L-half-2-multi", GS: synthGS(2, 2, [2]int64{28, 28}), Spec: lat.Spec{Points: w, MaxK: 5, Valid: true}, IDSets: [][]int{{0, 2}, {0, 1, 2}}, Cfgs: []snap.Config{{}}})
	// more vertices on fewer candidate points: all simple polygons of up to seven vertices over the nine pixel centres of a
	// 3x3 window straddling the root centre (an edge and the vertex of a non-adjacent part it has to be routed around)
	scs = append(scs, Scope{Name: "L-centres-3", GS: synthGS(0, 2, [2]int64{6, 6}), Spec: lat.Spec{Points: lat.Centres(3, 3), MaxK: 7, Valid: true}, IDSets: [][]int{{0}}, Cfgs: keepCfgs})
	{
		// centres and corners of the 3x3 window (25 of the 49 half-pixel lattice points), up to five vertices
		var pts []ref.P
		for _, p := range lat.Window(3, 3, 2) {
			if (p[0]+p[1])%2 == 0 && p[0]%2 == p[1]%2 {
				pts = append(pts, p)
			}
		}
		scs = append(scs, Scope{Name: "L-centres+corners-3", GS: synthGS(0, 2, [2]int64{6, 6}), Spec: lat.Spec{Points: pts, MaxK: 5, Valid: true}, IDSets: [][]int{{0}}, Cfgs: []snap.Config{{}}})
	}
	// the same at the ORIGIN of the grid, where pixel (x,y) of the coarser id and pixel (x,y) of the finer id (same
	// Z-order key, different level) both lie inside the window: whatever is keyed by a pixel address alone
	scs = append(scs, Scope{Name: "L-centres-4-origin-multi", GS: synthGS(1, 2, [2]int64{0, 0}), Spec: lat.Spec{Points: lat.Centres(4, 4), MaxK: 5, Valid: true}, IDSets: [][]int{{0, 1}, {1, 0}}, Cfgs: []snap.Config{{}}})
	return scs
}

// below keeps the lattice points whose coordinates are both below max (a window that ends on the exclusive border of the extent)
func below(pts []ref.P, max int64) []ref.P {
	var out []ref.P
	for _, p := range pts {
		if p[0] < max && p[1] < max {
			out = append(out, p)
		}
	}
	return out
}

// scale multiplies lattice points (used to put a coarse window on a finer grid)
func scale(pts []ref.P, f int64) []ref.P {
	out := make([]ref.P, len(pts))
	for i, p := range pts {
		out[i] = ref.P{p[0] * f, p[1] * f}
	}
	return out
}

func init() {
	register(&Prop{ID: "C01", PinnedFrom: []string{"C01"}, Scopes: scopesC01, Judge: judgeC01,
		Rule: "every valid polygon of each lattice scope (all simple CCW shells incl. every rotation, holes strictly inside and disjoint) x id sets x configs is snapped by the real code; all boundary edges of one id are tested pairwise for a proper crossing in exact integer arithmetic; non-trivial input = the reference router inserts a vertex or visits a centre twice"})
	_ = snap.Config{}
}
