package main

import (
	"fmt"

	"github.com/go-spatial/geom"
	"github.com/pdok/texel/snap"
	"verif/engine/ref"
)

func chainsArea2(chains [][]ref.PX) int64 {
	var s int64
	for _, c := range chains {
		if len(c) >= 3 {
			s += ref.Area2(c)
		}
	}
	return s
}

func judgeC18(sc *Scope, rings [][]ref.P, acc *Acc) []Problem {
	var probs []Problem
	poly := toPolygon(sc.G, rings)
	units := toUnits(sc.G, rings)
	models := map[int]refModel{}
	applicable := false
	for _, ids := range sc.IDSets {
		for _, z := range ids {
			if _, ok := models[z]; !ok {
				models[z] = model(sc.G, units, z)
			}
			if models[z].MaxV <= 2 {
				applicable = true
			}
		}
	}
	if !applicable {
		acc.Extra["not-applicable(visits>=3)"]++
		return nil
	}
	counted := false
	for _, ids := range sc.IDSets {
		for _, cfg := range sc.Cfgs {
			res, pan := run(sc.G, poly, ids, cfg)
			acc.Calls++
			if pan != nil {
				acc.Extra["panicked(C06)"]++
				continue
			}
			acc.outcome(res)
			for _, z := range ids {
				m := models[z]
				if m.MaxV > 2 {
					continue
				}
				if m.MaxV == 2 && !counted {
					counted = true
					acc.Nontrivial++ // collapsing but within the property's premise
				}
				dec, bad := decode(sc.G, z, res[z])
				if bad != "" {
					acc.Extra["undecodable(C03)"]++
					continue
				}
				if p := judgeC18One(z, m, dec, cfg); p != nil {
					p.IDs, p.Cfg, p.Got = ids, cfg, res
					p.Detail = map[string]any{"routed_chains": m.Chains, "max_visits": m.MaxV}
					probs = append(probs, *p)
				}
			}
		}
	}
	return probs
}

func judgeC18One(z int, m refModel, dec [][][]ref.PX, cfg snap.Config) *Problem {
	var outArea int64
	for pi, pl := range dec {
		for ri, r := range pl {
			n := len(r)
			if n >= 3 {
				outArea += ref.Area2(r)
			}
			switch {
			case n == 1:
				found := false
				for _, c := range m.Chains {
					for _, v := range c {
						if v == r[0] {
							found = true
						}
					}
				}
				if !found {
					return &Problem{Sig: "invented-vertex", What: fmt.Sprintf("id %d polygon %d ring %d: point %v is not on the routed boundary", z, pi, ri, r[0])}
				}
			case n == 2:
				if !ref.IsRun(m.Chains, r[0], r[1]) {
					return &Problem{Sig: fmt.Sprintf("invented-edge:visits=%d", m.MaxV), What: fmt.Sprintf("id %d polygon %d ring %d: edge %v-%v is not a routed edge or straight run of routed edges", z, pi, ri, r[0], r[1])}
				}
			default:
				for i := 0; i < n; i++ {
					if !ref.IsRun(m.Chains, r[i], r[(i+1)%n]) {
						return &Problem{Sig: fmt.Sprintf("invented-edge:visits=%d", m.MaxV), What: fmt.Sprintf("id %d polygon %d ring %d: edge %v-%v is not a routed edge or straight run of routed edges", z, pi, ri, r[i], r[(i+1)%n])}
					}
				}
			}
		}
		if len(pl) > 1 && len(pl[0]) >= 3 {
			for ri := 1; ri < len(pl); ri++ {
				for _, v := range pl[ri] {
					if ref.PointInRing(pl[0], v) < 0 {
						return &Problem{Sig: "hole-outside-shell", What: fmt.Sprintf("id %d polygon %d: hole %d vertex %v lies outside its shell", z, pi, ri, v)}
					}
				}
			}
		}
	}
	want := chainsArea2(m.Chains)
	if cfg.ReverseWindingOrder {
		outArea = -outArea
	}
	if outArea != want {
		return &Problem{Sig: fmt.Sprintf("area:visits=%d", m.MaxV), What: fmt.Sprintf("id %d: signed area (x2, pixel units) of the returned geometry %d != %d of the routed boundary", z, outArea, want)}
	}
	return nil
}

// ---- C02, second part: non-collapsing polygons come back as exactly the routed chains ----

func judgeC02Poly(sc *Scope, rings [][]ref.P, acc *Acc) []Problem {
	var probs []Problem
	poly := toPolygon(sc.G, rings)
	units := toUnits(sc.G, rings)
	models := map[int]refModel{}
	applicable := false
	for _, ids := range sc.IDSets {
		for _, z := range ids {
			if _, ok := models[z]; !ok {
				models[z] = model(sc.G, units, z)
			}
			if models[z].MaxV <= 1 {
				applicable = true
			}
		}
	}
	if !applicable {
		acc.Extra["not-applicable(collapsing)"]++
		return nil
	}
	inserted := false
	for z, m := range models {
		if m.MaxV <= 1 {
			for i := range units {
				if len(m.Chains[i]) != len(units[i]) {
					inserted = true
				}
			}
		}
		_ = z
	}
	if inserted {
		acc.Nontrivial++
	}
	for _, ids := range sc.IDSets {
		for _, cfg := range sc.Cfgs {
			res, pan := run(sc.G, poly, ids, cfg)
			acc.Calls++
			if pan != nil {
				acc.Extra["panicked(C06)"]++
				continue
			}
			acc.outcome(res)
			for _, z := range ids {
				m := models[z]
				if m.MaxV > 1 {
					continue
				}
				dec, bad := decode(sc.G, z, res[z])
				if bad != "" {
					acc.Extra["undecodable(C03)"]++
					continue
				}
				if what := compareToChains(m, dec, cfg, res, z); what != "" {
					probs = append(probs, Problem{Sig: "polygon-differs-from-routed-chains", What: fmt.Sprintf("id %d: %s", z, what), IDs: ids, Cfg: cfg, Got: res, Detail: map[string]any{"routed_chains": m.Chains}})
				}
			}
		}
	}
	return probs
}

// expected: one polygon [shell chain, hole chains...]; rings that route to
// fewer than three centres are dropped (no keep) or appended as separate
// one-ring polygons (keep); if the shell itself routes to fewer than three
// centres the id is absent (no keep).
func compareToChains(m refModel, dec [][][]ref.PX, cfg snap.Config, res map[int][]geom.Polygon, z int) string {
	orient := func(c []ref.PX, wantCCW bool) []ref.PX {
		a := ref.Area2(c)
		if cfg.ReverseWindingOrder {
			wantCCW = !wantCCW
		}
		if (a > 0 && !wantCCW) || (a < 0 && wantCCW) {
			rc := make([]ref.PX, len(c))
			for i := range c {
				rc[len(c)-1-i] = c[i]
			}
			return rc
		}
		return c
	}
	var main [][]ref.PX
	var extras [][]ref.PX
	shellShort := len(m.Chains[0]) < 3
	for i, c := range m.Chains {
		if len(c) < 3 {
			extras = append(extras, c)
			continue
		}
		if shellShort {
			// shell collapsed: the property's premise (no two parts collapse onto a common
			// pixel) still holds, the level is dropped unless keep retains the parts
			continue
		}
		main = append(main, orient(c, i == 0))
	}
	_, present := res[z]
	if shellShort {
		if !cfg.KeepPointsAndLines {
			if present {
				return "shell routes to fewer than three centres but the id is present without keep"
			}
			return ""
		}
		// with keep: only short single-ring polygons may be present
		for _, pl := range dec {
			if len(pl) != 1 || len(pl[0]) > 2 {
				return "shell routes to fewer than three centres but a ring of three or more vertices is returned"
			}
		}
		return ""
	}
	if !present || len(dec) == 0 {
		return "nothing returned for a non-collapsing polygon"
	}
	if len(dec[0]) != len(main) {
		return fmt.Sprintf("first polygon has %d rings, routed boundary has %d non-degenerate chains", len(dec[0]), len(main))
	}
	for i := range main {
		if !ref.CyclicEqual(dec[0][i], main[i]) {
			return fmt.Sprintf("ring %d = %v differs from the routed chain %v", i, dec[0][i], main[i])
		}
	}
	rest := dec[1:]
	if !cfg.KeepPointsAndLines {
		if len(rest) != 0 {
			return fmt.Sprintf("%d extra polygons returned", len(rest))
		}
		return ""
	}
	if len(rest) != len(extras) {
		return fmt.Sprintf("%d collapsed parts returned, %d expected", len(rest), len(extras))
	}
	for i := range rest {
		if len(rest[i]) != 1 || !(ref.CyclicEqual(rest[i][0], extras[i]) || (len(extras[i]) == 2 && rest[i][0][0] == extras[i][1] && rest[i][0][1] == extras[i][0])) {
			return fmt.Sprintf("collapsed part %d = %v differs from the routed chain %v", i, rest[i], extras[i])
		}
	}
	return ""
}

func init() {
	register(&Prop{ID: "C18", PinnedFrom: []string{"C01"}, Scopes: scopesValid, Judge: judgeC18,
		Rule: "all valid lattice polygons of the scopes whose reference-routed boundary visits no centre more than twice (premise evaluated per id by the reference router) x id sets x configs; oracle: every returned edge is a routed edge or straight run of routed edges, holes inside/on shell, signed area equals that of the routed chains; non-trivial = some centre is visited exactly twice (a collapse within the premise)"})
}
