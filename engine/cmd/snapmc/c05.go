package main

import (
	"fmt"
	"reflect"

	"github.com/go-spatial/geom"
	"github.com/pdok/texel/snap"
	"github.com/pdok/texel/tms20"
	"verif/engine/ev"
	"verif/engine/grid"
	"verif/engine/lat"
	"verif/engine/ref"
)

// ringSimplePX: the returned ring (pixel indices) is a simple closed curve.
func ringSimplePX(r []ref.PX) bool { return ref.Simple(r) }

// structural checks of one result (one id) under cfg; returns problems
func structureC05(z int, polys []geom.Polygon, dec [][][]ref.PX, cfg snap.Config, validInput bool) (sig, what string) {
	if len(polys) == 0 {
		return "empty-list", fmt.Sprintf("id %d is mapped to an empty list", z)
	}
	for pi, pl := range dec {
		if len(pl) == 0 {
			return "empty-polygon", fmt.Sprintf("id %d polygon %d has no rings", z, pi)
		}
		for ri, r := range pl {
			m := len(r)
			if m == 0 {
				return "empty-ring", fmt.Sprintf("id %d polygon %d ring %d is empty", z, pi, ri)
			}
			if m > 1 && r[0] == r[m-1] {
				return "closing-duplicate", fmt.Sprintf("id %d polygon %d ring %d repeats its first vertex at the end: %v", z, pi, ri, polys[pi][ri])
			}
			seen := map[ref.PX]int{}
			for i, v := range r {
				if i > 0 && r[i-1] == v {
					return "equal-consecutive", fmt.Sprintf("id %d polygon %d ring %d has equal consecutive vertices: %v", z, pi, ri, polys[pi][ri])
				}
				if j, dup := seen[v]; dup {
					return "vertex-twice", fmt.Sprintf("id %d polygon %d ring %d visits vertex %v twice (positions %d and %d): %v", z, pi, ri, polys[pi][ri][i], j, i, polys[pi][ri])
				}
				seen[v] = i
			}
			if m < 3 {
				if !cfg.KeepPointsAndLines {
					return "short-ring-without-keep", fmt.Sprintf("id %d polygon %d ring %d has %d vertices without keep-points-and-lines", z, pi, ri, m)
				}
				if ri > 0 || len(pl) > 1 {
					return "short-ring-not-separate", fmt.Sprintf("id %d polygon %d: collapsed part is not a separate single-ring polygon", z, pi)
				}
				continue
			}
			a := ref.Area2(r)
			if a != 0 && ringSimplePX(r) {
				wantCCW := ri == 0
				if cfg.ReverseWindingOrder {
					wantCCW = !wantCCW
				}
				if (a > 0) != wantCCW {
					return "orientation", fmt.Sprintf("id %d polygon %d ring %d (shell=%v) has the wrong direction (area2=%d, reverse=%v): %v", z, pi, ri, ri == 0, a, cfg.ReverseWindingOrder, polys[pi][ri])
				}
			}
		}
		// first ring is the shell, the rest are holes: for valid inputs every hole vertex is inside or on the shell
		if validInput && len(pl) > 1 && len(pl[0]) >= 3 && ringSimplePX(pl[0]) {
			for ri := 1; ri < len(pl); ri++ {
				for _, v := range pl[ri] {
					if ref.PointInRing(pl[0], v) < 0 {
						return "hole-outside-shell", fmt.Sprintf("id %d polygon %d ring %d has vertex %v outside its shell", z, pi, ri, v)
					}
				}
			}
		}
	}
	return "", ""
}

func judgeC05(sc *Scope, rings [][]ref.P, acc *Acc) []Problem {
	var probs []Problem
	poly := toPolygon(sc.G, rings)
	units := toUnits(sc.G, rings)
	if nontrivialInput(sc, units, sc.G.Deepest) {
		acc.Nontrivial++
	}
	for _, ids := range sc.IDSets {
		results := map[snap.Config]map[int][]geom.Polygon{}
		panicked := false
		for _, cfg := range sc.Cfgs {
			res, pan := run(sc.G, poly, ids, cfg)
			acc.Calls++
			if pan != nil {
				acc.Extra["panicked(C06)"]++
				panicked = true
				continue
			}
			acc.outcome(res)
			results[cfg] = res
			for z, polys := range res {
				dec, bad := decode(sc.G, z, polys)
				if bad != "" {
					acc.Extra["undecodable(C03)"]++
					continue
				}
				if sig, what := structureC05(z, polys, dec, cfg, sc.Spec.Valid); sig != "" {
					probs = append(probs, Problem{Sig: sig, What: what, IDs: ids, Cfg: cfg, Got: res})
				}
			}
			if !inIDs(res, ids) {
				probs = append(probs, Problem{Sig: "foreign-key", What: fmt.Sprintf("result has keys outside the requested ids %v", ids), IDs: ids, Cfg: cfg, Got: res})
			}
		}
		if panicked {
			continue
		}
		// keep / no-keep differential for equal reverse flag
		for _, rev := range []bool{false, true} {
			a, okA := results[snap.Config{ReverseWindingOrder: rev}]
			b, okB := results[snap.Config{KeepPointsAndLines: true, ReverseWindingOrder: rev}]
			if !okA || !okB {
				continue
			}
			for z, ra := range a {
				rb, present := b[z]
				cfg := snap.Config{KeepPointsAndLines: true, ReverseWindingOrder: rev}
				if !present || len(rb) < len(ra) || !reflect.DeepEqual([]geom.Polygon(rb[:len(ra)]), []geom.Polygon(ra)) {
					probs = append(probs, Problem{Sig: "keep-differential-prefix", What: fmt.Sprintf("id %d: result with keep does not start with the result without keep", z), IDs: ids, Cfg: cfg, Got: map[string]any{"without": ra, "with": rb}})
					continue
				}
				for _, extra := range rb[len(ra):] {
					if len(extra) != 1 || len(extra[0]) < 1 || len(extra[0]) > 2 {
						probs = append(probs, Problem{Sig: "keep-differential-extras", What: fmt.Sprintf("id %d: polygons appended by keep are not single rings of one or two vertices", z), IDs: ids, Cfg: cfg, Got: map[string]any{"without": ra, "with": rb}})
						break
					}
				}
			}
		}
	}
	return probs
}

func inIDs(res map[int][]geom.Polygon, ids []int) bool {
	for z := range res {
		ok := false
		for _, id := range ids {
			if id == z {
				ok = true
			}
		}
		if !ok {
			return false
		}
	}
	return true
}

// realGS: a block of a built-in set whose window origin is the pixel (of id z) containing (x, y)
func realGS(set string, z int, sub int64, x, y float64) GridSpec {
	tms, err := tms20.LoadEmbeddedTileMatrixSet(set)
	if err != nil {
		ev.HarnessError("%v", err)
	}
	g, err := grid.NewReal(set, tms, z, sub, [2]int64{0, 0})
	if err != nil {
		ev.HarnessError("%v", err)
	}
	// aligned to 16 pixels so that the pixel borders of the four next coarser ids pass through the local origin
	ax := ref.FloorDiv(grid.Quantise(x)-g.MinX, g.ResDeepest) &^ 15
	ay := ref.FloorDiv(grid.Quantise(y)-g.MinY, g.ResDeepest) &^ 15
	return GridSpec{Kind: "real", Set: set, Deepest: z, Sub: sub, OffPx: [2]int64{ax, ay}}
}

// scopesRealBlocks: walks over pixel centres (spikes, zig-zags, repeated vertices) and small valid
// polygons on blocks of the real grids, at anchors where the float <-> fixed-point round trip of
// the pixel centres behaves differently (exact, off by one unit on one axis, on both axes)
func scopesRealBlocks(thorough bool) []Scope {
	k := func(q, t int) int {
		if thorough {
			return t
		}
		return q
	}
	type anchor struct {
		set  string
		z    int
		x, y float64
	}
	anchors := []anchor{
		{"NetherlandsRDNewQuad", 14, 155000, 463000}, {"NetherlandsRDNewQuad", 14, 20000.3, 380000.7}, {"NetherlandsRDNewQuad", 5, 20000.3, 380000.7},
		{"WebMercatorQuad", 17, 550000.1, 6800000.2}, {"WebMercatorQuad", 12, 550000.1, 6800000.2}, {"WebMercatorQuad", 17, -20037000, -20037000},
		{"EuropeanETRS89_LAEAQuad", 14, 4000000.3, 3200000.1}, {"NZTM2000Quad", 16, 1600000.2, 5400000.4},
		// deepest ids far from the origin: coordinate products of ~1e11..1e14 against pixels of millimetres, where
		// floating-point steps that look harmless near the origin (areas, orientation tests) lose their last bits
		{"NetherlandsRDNewQuad", 16, 250000.5, 600000.5}, {"WebMercatorQuad", 18, 19000000.3, 19000000.7},
	}
	if thorough {
		anchors = append(anchors, anchor{"WorldMercatorWGS84Quad", 15, 550000.1, 6800000.2}, anchor{"UPSArcticWGS84Quad", 12, 2000000.1, 2000000.3})
	}
	var scs []Scope
	for _, a := range anchors {
		gs := realGS(a.set, a.z, 2, a.x, a.y)
		name := fmt.Sprintf("%s-z%d@(%.0f,%.0f)", a.set, a.z, a.x, a.y)
		scs = append(scs,
			Scope{Name: "R-walk-2x2:" + name, GS: gs, Spec: lat.Spec{Points: lat.Centres(2, 2), MinK: 1, MaxK: k(6, 8), Repeats: true}, IDSets: [][]int{{a.z}}, Cfgs: allCfgs},
			Scope{Name: "R-half-2:" + name, GS: gs, Spec: lat.Spec{Points: lat.Window(2, 2, 2), MaxK: k(3, 4), Valid: true}, IDSets: [][]int{{a.z}}, Cfgs: keepCfgs},
		)
	}
	return scs
}

func scopesC05(thorough bool) []Scope {
	k := func(q, t int) int {
		if thorough {
			return t
		}
		return q
	}
	one := [][]int{{0}}
	scs := scopesValid(thorough)
	for i := range scs {
		scs[i].Cfgs = allCfgs
	}
	scs = append(scs,
		Scope{Name: "C-walk-2x2", GS: synthGS(0, 2, [2]int64{7, 7}), Spec: lat.Spec{Points: lat.Centres(2, 2), MinK: 1, MaxK: k(9, 11), Repeats: true}, IDSets: one, Cfgs: allCfgs},
		Scope{Name: "C-walk-3x2", GS: synthGS(0, 2, [2]int64{6, 7}), Spec: lat.Spec{Points: lat.Centres(3, 2), MinK: 1, MaxK: k(6, 8), Repeats: true}, IDSets: one, Cfgs: allCfgs},
		Scope{Name: "C-any-2x2", GS: synthGS(0, 2, [2]int64{7, 7}), Spec: lat.Spec{Points: lat.Window(2, 2, 2), MinK: 1, MaxK: k(4, 5), Repeats: true}, IDSets: one, Cfgs: allCfgs},
		Scope{Name: "C-any-rings", GS: synthGS(0, 2, [2]int64{7, 7}), Spec: lat.Spec{Points: lat.Window(1, 1, 2), MinK: 1, MaxK: k(2, 3), Repeats: true, MaxHoles: 2, HoleMinK: 1, HoleMaxK: k(2, 3)}, IDSets: one, Cfgs: allCfgs},
	)
	// invalid holes: a fixed shell around the window, the hole is every walk over a block of pixel centres
	// (figure-eights, spikes, zig-zags as holes; holes whose pieces collapse or turn counter-clockwise)
	frame := []ref.P{{-6, -6}, {14, -6}, {14, 12}, {-6, 12}}
	scs = append(scs,
		Scope{Name: "H-walk-2x2", GS: synthGS(0, 2, [2]int64{6, 6}), Spec: lat.Spec{Prefix: [][]ref.P{frame}, Points: lat.Centres(2, 2), MinK: 1, MaxK: k(8, 10), Repeats: true, NoStutter: true}, IDSets: one, Cfgs: allCfgs},
		Scope{Name: "H-walk-3x2", GS: synthGS(0, 2, [2]int64{6, 6}), Spec: lat.Spec{Prefix: [][]ref.P{frame}, Points: lat.Centres(3, 2), MinK: 1, MaxK: k(6, 8), Repeats: true, NoStutter: true}, IDSets: one, Cfgs: allCfgs},
		Scope{Name: "H-any-2x2", GS: synthGS(0, 2, [2]int64{6, 6}), Spec: lat.Spec{Prefix: [][]ref.P{frame}, Points: lat.Window(2, 2, 2), MinK: 1, MaxK: k(4, 5), Repeats: true}, IDSets: one, Cfgs: keepCfgs},
	)
	// tiny holes on the quarter-pixel lattice around the corner shared by four pixels: a hole smaller than a pixel whose
	// vertices nevertheless fall into 2x2 different pixels (it must come back as a real hole, with and without keep)
	{
		var pts []ref.P
		for y := int64(14); y <= 18; y++ {
			for x := int64(14); x <= 18; x++ {
				pts = append(pts, ref.P{x, y})
			}
		}
		qframe := []ref.P{{2, 2}, {30, 2}, {30, 30}, {2, 30}}
		scs = append(scs, Scope{Name: "H-any-corner-quarter", GS: synthGS(0, 4, [2]int64{4, 4}), Spec: lat.Spec{Prefix: [][]ref.P{qframe}, Points: pts, MinK: 1, MaxK: 3, Repeats: true}, IDSets: one, Cfgs: allCfgs})
	}
	// holes and several tile matrices together: the keep / no-keep differential per tile matrix when the shell
	// collapses at the coarse id but not at the fine one
	scs = append(scs, Scope{Name: "L-multi-holes", GS: synthGS(2, 2, [2]int64{28, 28}), Spec: lat.Spec{Points: scale(lat.Window(2, 2, 2), 4), MaxK: k(3, 4), Valid: true, MaxHoles: 1, HoleMaxK: 3},
		IDSets: [][]int{{0, 2}, {1, 2}, {0, 1, 2}}, Cfgs: allCfgs})
	scs = append(scs, kmpScope(thorough))
	sw := shellWalkScope(k(8, 9)) // every walk as the shell, fixed hole: several equal / nested outer rings for one hole
	sw.Cfgs = allCfgs
	hw := holeWalkOnShellScope(k(8, 9))
	hw.Cfgs = allCfgs
	scs = append(scs, sw, hw)
	return append(scs, scopesRealBlocks(thorough)...)
}

func init() {
	register(&Prop{ID: "C05", PinnedFrom: []string{"C01"}, Scopes: scopesC05, Judge: judgeC05,
		Rule: "valid lattice polygons plus every vertex sequence (repeats allowed, 1-3 rings) of the invalid scopes, each run under all four (keep, reverse) combinations; structural invariants per returned ring plus the keep/no-keep differential; non-trivial input = the reference router inserts a vertex or visits a centre twice"})
}
