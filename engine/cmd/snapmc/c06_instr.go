//go:build instr

package main

import (
	"errors"
	"fmt"
	"os"
	"strings"

	"github.com/pdok/texel/pointindex"
	"github.com/pdok/texel/snap"
	"github.com/pdok/texel/zzverif/vsrt"
	"verif/engine/ev"
	"verif/engine/lat"
	"verif/engine/ref"
)

// tickBudgetA: loop iterations allowed per (n+2)^3 where n = input vertices x
// requested tile matrices.  Calibrated on the repaired tree as 8x the largest
// ratio observed over the quick scopes (see DESIGN.md C06) and frozen here.
const tickBudgetA = 64

type tickBudgetExceeded struct{ ticks, budget int64 }

var tickLimit int64

func tickHook() {
	if vsrt.Ticks > tickLimit {
		panic(tickBudgetExceeded{vsrt.Ticks, tickLimit})
	}
}

func panicClass(p any) string {
	s := fmt.Sprint(p)
	switch {
	case strings.Contains(s, "index out of range"), strings.Contains(s, "slice bounds out of range"):
		return "index-out-of-range"
	case strings.Contains(s, "no points found"):
		return "no-points-found"
	case strings.Contains(s, "reached end of ring with stack length"):
		return "partial-rings-on-stack"
	case strings.Contains(s, "nil map"), strings.Contains(s, "nil pointer"):
		return "nil-dereference"
	case strings.Contains(s, "cannot make Z"):
		return "morton-overflow"
	}
	f := strings.Fields(s)
	if len(f) > 4 {
		f = f[:4]
	}
	return strings.Join(f, "-")
}

func judgeC06(sc *Scope, rings [][]ref.P, acc *Acc) []Problem {
	var probs []Problem
	poly := toPolygon(sc.G, rings)
	nv := 0
	for _, r := range rings {
		nv += len(r)
	}
	vsrt.TickHook = tickHook
	defer func() { vsrt.TickHook = nil }()
	acc.Nontrivial++ // every input counts: the property is about all vertex sequences
	for _, ids := range sc.IDSets {
		n := int64(nv * len(ids))
		tickLimit = tickBudgetA * (n + 2) * (n + 2) * (n + 2)
		for _, cfg := range sc.Cfgs {
			vsrt.Ticks = 0
			res, pan := run(sc.G, poly, ids, cfg)
			acc.Calls++
			t := vsrt.Ticks
			if r := t * 1000 / ((n + 2) * (n + 2) * (n + 2)); r > acc.Extra["max-ticks-per-(n+2)^3-x1000"] {
				acc.Extra["max-ticks-per-(n+2)^3-x1000"] = r
			}
			if t > acc.Extra["max-ticks"] {
				acc.Extra["max-ticks"] = t
			}
			if pan == nil {
				acc.outcome(res)
				continue
			}
			if tb, ok := pan.(tickBudgetExceeded); ok {
				probs = append(probs, Problem{Sig: "step-budget-exceeded", What: fmt.Sprintf("more than %d loop iterations for %d vertices x %d tile matrices (budget %d*(n+2)^3): does not terminate within a small polynomial of the vertex count", tb.budget, nv, len(ids), tickBudgetA), IDs: ids, Cfg: cfg})
				continue
			}
			if err, ok := pan.(error); ok {
				oge := new(pointindex.OutsideGridError)
				if errors.As(err, oge) {
					probs = append(probs, Problem{Sig: "in-grid-vertex-rejected", What: "OutsideGridError for a polygon inside the extent: " + err.Error(), IDs: ids, Cfg: cfg})
					continue
				}
			}
			probs = append(probs, Problem{Sig: "panic:" + panicClass(pan), What: fmt.Sprintf("panic: %v", pan), IDs: ids, Cfg: cfg})
		}
	}
	return probs
}

func scopesC06(thorough bool) []Scope {
	k := func(q, t int) int {
		if thorough {
			return t
		}
		return q
	}
	one := [][]int{{0}}
	cfgs := []snap.Config{{}, {KeepPointsAndLines: true}}
	scs := []Scope{
		{Name: "C-walk-2x2", GS: synthGS(0, 2, [2]int64{7, 7}), Spec: lat.Spec{Points: lat.Centres(2, 2), MinK: 1, MaxK: k(8, 10), Repeats: true}, IDSets: one, Cfgs: allCfgs},
		{Name: "C-walk-2x2-long", GS: synthGS(0, 2, [2]int64{7, 7}), Spec: lat.Spec{Points: lat.Centres(2, 2), MinK: 9, MaxK: k(12, 14), Repeats: true, NoStutter: true}, IDSets: one, Cfgs: cfgs},
		{Name: "C-walk-5px-long", GS: synthGS(0, 2, [2]int64{6, 7}), Spec: lat.Spec{Points: append(lat.Centres(2, 2), ref.P{5, 1}), MinK: 1, MaxK: k(9, 12), Repeats: true, NoStutter: true}, IDSets: one, Cfgs: cfgs},
		{Name: "C-walk-3x2", GS: synthGS(0, 2, [2]int64{6, 7}), Spec: lat.Spec{Points: lat.Centres(3, 2), MinK: 1, MaxK: k(6, 8), Repeats: true}, IDSets: one, Cfgs: cfgs},
		{Name: "C-any-2x2", GS: synthGS(0, 2, [2]int64{7, 7}), Spec: lat.Spec{Points: lat.Window(2, 2, 2), MinK: 1, MaxK: k(4, 5), Repeats: true}, IDSets: one, Cfgs: cfgs},
		{Name: "C-any-rings", GS: synthGS(0, 2, [2]int64{7, 7}), Spec: lat.Spec{Points: lat.Window(1, 1, 2), MinK: 1, MaxK: k(2, 3), Repeats: true, MaxHoles: 2, HoleMinK: 1, HoleMaxK: k(2, 3)}, IDSets: one, Cfgs: cfgs},
		{Name: "C-walk-multi", GS: synthGS(2, 2, [2]int64{31, 31}), Spec: lat.Spec{Points: lat.Centres(2, 2), MinK: 1, MaxK: k(6, 8), Repeats: true}, IDSets: [][]int{{0, 1, 2}}, Cfgs: cfgs},
		{Name: "L-half-2", GS: synthGS(0, 2, [2]int64{7, 7}), Spec: lat.Spec{Points: lat.Window(2, 2, 2), MaxK: k(4, 5), Valid: true}, IDSets: one, Cfgs: cfgs},
		{Name: "L-holes-2", GS: synthGS(0, 2, [2]int64{7, 7}), Spec: lat.Spec{Points: lat.Window(2, 2, 2), MaxK: k(3, 4), Valid: true, MaxHoles: 1, HoleMaxK: 3}, IDSets: one, Cfgs: cfgs},
	}
	// several ids requested together AND several rings: what an earlier ring did to the per-level bookkeeping (a level
	// dropped because the shell collapsed there) meets the later rings
	multi := [][]int{{0, 3}, {3, 0, 1}, {0, 1, 2, 3}}
	scs = append(scs,
		Scope{Name: "L-multi4-holes", GS: synthGS(3, 2, [2]int64{60, 60}), Spec: lat.Spec{Points: scale(lat.Window(2, 2, 2), 4), MaxK: 4, Valid: true, MaxHoles: 1, HoleMaxK: 3}, IDSets: multi, Cfgs: cfgs},
		Scope{Name: "C-walk-rings-multi", GS: synthGS(2, 2, [2]int64{31, 31}), Spec: lat.Spec{Points: lat.Centres(2, 2), MinK: 1, MaxK: k(4, 5), Repeats: true, MaxHoles: k(1, 2), HoleMinK: 1, HoleMaxK: 3}, IDSets: [][]int{{0, 2}, {2, 1, 0}}, Cfgs: cfgs},
		Scope{Name: "C-any-rings-multi", GS: synthGS(2, 2, [2]int64{28, 28}), Spec: lat.Spec{Points: scale(lat.Window(1, 1, 2), 2), MinK: 1, MaxK: k(3, 4), Repeats: true, MaxHoles: 1, HoleMinK: 1, HoleMaxK: 3}, IDSets: [][]int{{0, 2}, {0, 1, 2}}, Cfgs: cfgs},
	)
	scs = append(scs, kmpScope(thorough), shellWalkScope(k(8, 10)), holeWalkOnShellScope(k(8, 10)))
	for _, f := range familyScopes(thorough) {
		scs = append(scs, f)
	}
	return scs
}

func init() {
	_ = os.Getenv
	register(&Prop{ID: "C06", Scopes: scopesC06, Judge: judgeC06, Extras: []func(*ev.Run, int, int) scopeReport{realSweep("C06")},
		Rule: "every vertex sequence of the invalid scopes (walks over pixel centres incl. revisits up to length 12/14, all sequences with repeats on the half-pixel lattice, up to 3 rings incl. rings of 1-2 points) and the valid scopes is snapped by the real code built with a step counter in every loop body (mechanical instrumentation of the current sources); oracle: the call returns without panic within A*(n+2)^3 loop iterations, n = vertices x tile matrices, A frozen; every input counts as non-trivial; plus the real-grid sweep: every accepted built-in set x every id x deepest id in {z, z+1, last} x 9 anchors x probe polygons inside the extent"})
}
