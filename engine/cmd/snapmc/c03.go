package main

import (
	"encoding/json"
	"errors"
	"fmt"
	"math"
	"math/big"
	"os"
	"path/filepath"
	"sort"
	"strconv"
	"strings"
	"time"

	"github.com/go-spatial/geom"
	"github.com/pdok/texel/pointindex"
	"github.com/pdok/texel/snap"
	"github.com/pdok/texel/tms20"
	"verif/engine/ev"
	"verif/engine/grid"
)

var gridSynth = grid.Synth

// the built-in sets accepted by validation (the reference quadtree predicate of C14 decides the same)
var acceptedSets = []string{"NetherlandsRDNewQuad", "WebMercatorQuad", "WorldMercatorWGS84Quad", "EuropeanETRS89_LAEAQuad", "NZTM2000Quad", "UPSArcticWGS84Quad", "UPSAntarcticWGS84Quad"}

// sets whose pointOfOrigin is stored northing first (hand-checked, see C15)
var northingFirstSets = map[string]bool{"EuropeanETRS89_LAEAQuad": true, "NZTM2000Quad": true}

type realSet struct {
	Name         string
	TMS          tms20.TileMatrixSet
	IDs          []int
	Cell         map[int]*big.Rat // exact cell size per id
	CornerX      *big.Rat         // exact min x of the extent
	CornerY      *big.Rat         // exact min y of the extent
	TileWidth    int64
	Matrix0Width int64
}

func repoDir() string {
	if d := os.Getenv("VERIF_REPO"); d != "" {
		return d
	}
	return "/repo"
}

func loadRealSet(name string) *realSet {
	b, err := os.ReadFile(filepath.Join(repoDir(), "tms20", "tilematrixsets", name+".json"))
	if err != nil {
		ev.HarnessError("%v", err)
	}
	var raw struct {
		TileMatrices []struct {
			ID             string         `json:"id"`
			CellSize       json.Number    `json:"cellSize"`
			CornerOfOrigin string         `json:"cornerOfOrigin"`
			PointOfOrigin  [2]json.Number `json:"pointOfOrigin"`
			TileWidth      int64          `json:"tileWidth"`
			MatrixWidth    int64          `json:"matrixWidth"`
			MatrixHeight   int64          `json:"matrixHeight"`
		} `json:"tileMatrices"`
	}
	if err := json.Unmarshal(b, &raw); err != nil {
		ev.HarnessError("%s: %v", name, err)
	}
	rs := &realSet{Name: name, Cell: map[int]*big.Rat{}}
	if err := json.Unmarshal(b, &rs.TMS); err != nil {
		ev.HarnessError("%s does not decode: %v", name, err)
	}
	rat := func(n json.Number) *big.Rat {
		r, ok := new(big.Rat).SetString(n.String())
		if !ok {
			ev.HarnessError("bad number %q", n)
		}
		return r
	}
	for _, tm := range raw.TileMatrices {
		id, _ := strconv.Atoi(tm.ID)
		rs.IDs = append(rs.IDs, id)
		rs.Cell[id] = rat(tm.CellSize)
		if id == 0 {
			ox, oy := rat(tm.PointOfOrigin[0]), rat(tm.PointOfOrigin[1])
			if northingFirstSets[name] {
				ox, oy = oy, ox
			}
			rs.TileWidth, rs.Matrix0Width = tm.TileWidth, tm.MatrixWidth
			span := new(big.Rat).Mul(rs.Cell[0], big.NewRat(tm.TileWidth*tm.MatrixWidth, 1))
			rs.CornerX = ox
			if tm.CornerOfOrigin == "bottomLeft" {
				rs.CornerY = oy
			} else {
				rs.CornerY = new(big.Rat).Sub(oy, new(big.Rat).Mul(rs.Cell[0], big.NewRat(tm.TileWidth*tm.MatrixHeight, 1)))
			}
			_ = span
		}
	}
	sort.Ints(rs.IDs)
	return rs
}

func ratF(r *big.Rat) float64 { f, _ := r.Float64(); return f }

// pixels per axis at id z
func (rs *realSet) size(z int) int64 { return rs.Matrix0Width * rs.TileWidth * 16 << uint(z) }

// probes: small shapes in units of the pixel of the id being judged (window 3x3 pixels)
var probeShapes = [][][2]float64{
	{{0.25, 0.25}, {2.75, 0.5}, {1.5, 2.75}},
	{{0.5, 0.5}, {2.5, 0.5}, {2.5, 2.5}, {0.5, 2.5}},
	{{0, 0}, {3, 0}, {3, 3}, {0, 3}},
	{{0.5, 1.5}, {1.5, 0.5}, {2.5, 1.5}, {1.5, 2.5}},
	{{0.25, 0.25}, {2.75, 0.25}, {2.75, 0.75}, {0.25, 0.75}},             // sliver: collapses to a line
	{{1.1, 1.1}, {1.4, 1.1}, {1.4, 1.4}},                                 // inside one pixel: collapses to a point
	{{0.5, 0.5}, {2.5, 0.5}, {2.5, 2.5}, {1.5, 1.25}, {0.5, 2.5}},        // notch
	{{0, 1}, {1, 0}, {3, 0}, {3, 1.999}, {2, 3}, {0.001, 3}, {1.5, 1.5}}, // vertices on borders, spike to the middle
}

type sweepCase struct {
	Set     string       `json:"set"`
	ID      int          `json:"tile_matrix"`
	Deepest int          `json:"requested_together_with"`
	Anchor  [2]string    `json:"anchor"`
	Probe   int          `json:"probe"`
	Cfg     snap.Config  `json:"config"`
	Polygon geom.Polygon `json:"polygon"`
	Got     string       `json:"got"`
}

// realSweep: every accepted built-in set x every id z x deepest id z' >= z requested together x 9 anchors
// (min edge, middle, max edge per axis) x flag combinations x probe shapes.  mode "C03" judges the returned
// coordinates against the ideal pixel centres, mode "C06" judges totality (no panic for in-extent polygons).
func realSweep(mode string) func(r *ev.Run, shardI, shardN int) scopeReport {
	return func(r *ev.Run, shardI, shardN int) scopeReport {
		t0 := time.Now()
		rep := scopeReport{Scope: "real-grid sweep (" + mode + ")", Grid: strings.Join(acceptedSets, ", "), Exhaustive: true, Extra: map[string]int64{}}
		nProbes := 4
		if r.Thorough() {
			nProbes = len(probeShapes)
		}
		cfgs := []snap.Config{{}, {KeepPointsAndLines: true}}
		if r.Thorough() || mode == "C03" {
			cfgs = allCfgs
		}
		n := 0
		for _, name := range acceptedSets {
			rs := loadRealSet(name)
			for _, z := range rs.IDs {
				for _, zd := range rs.IDs {
					if zd < z {
						continue
					}
					if mode == "C06" && zd != z && zd != z+1 && zd != rs.IDs[len(rs.IDs)-1] {
						continue // totality: a smaller set of deepest ids
					}
					n++
					if n%shardN != shardI {
						continue
					}
					if r.Expired() {
						rep.Exhaustive = false
						return rep
					}
					rep.States++
					sweepOne(r, &rep, mode, rs, z, zd, nProbes, cfgs)
				}
			}
		}
		rep.Bound = fmt.Sprintf("7 accepted built-in sets x every id z x deepest id z' (C03: all z' >= z; C06: z, z+1, deepest) x 9 anchors x %d configs x %d probe shapes of 3x3 pixels of z", len(cfgs), nProbes)
		rep.Inputs = rep.Calls
		rep.States++
		rep.WallS = time.Since(t0).Seconds()
		return rep
	}
}

func sweepOne(r *ev.Run, rep *scopeReport, mode string, rs *realSet, z, zd, nProbes int, cfgs []snap.Config) {
	pixel := new(big.Rat).Quo(rs.Cell[z], big.NewRat(16, 1))
	pixelF := ratF(pixel)
	cx, cy := ratF(rs.CornerX), ratF(rs.CornerY)
	size := rs.size(z)
	_, devUnits, _, err := deviation(rs.TMS, zd)
	if err != nil {
		rep.Extra["deviation-stats-failed"]++
		return
	}
	anchors := []struct {
		name string
		at   int64
	}{{"min-edge", 1}, {"middle", size/2 - 1}, {"max-edge", size - 5}}
	ids := []int{z}
	if zd != z {
		ids = []int{z, zd}
		if (z+zd)%2 == 1 {
			ids = []int{zd, z} // the list as written: half of the pairs with the deeper id first
		}
	}
	if mode == "C06" {
		// the last representable position inside the extent: a triangle with one vertex ~1e-8 CRS units inside the top
		// right corner of the extent (the pixel grid, whose pixel size is truncated, can end before the extent does)
		maxX := new(big.Rat).Add(rs.CornerX, new(big.Rat).Mul(pixel, big.NewRat(size, 1)))
		maxY := new(big.Rat).Add(rs.CornerY, new(big.Rat).Mul(pixel, big.NewRat(size, 1)))
		fx := math.Nextafter(ratF(maxX)-8e-9, math.Inf(-1))
		fy := math.Nextafter(ratF(maxY)-8e-9, math.Inf(-1))
		if new(big.Rat).SetFloat64(fx).Cmp(maxX) < 0 && new(big.Rat).SetFloat64(fy).Cmp(maxY) < 0 {
			poly := geom.Polygon{{{fx, fy}, {fx - 3*pixelF, fy}, {fx, fy - 3*pixelF}}}
			for _, cfg := range cfgs {
				var pan any
				func() {
					defer func() { pan = recover() }()
					_ = snap.SnapPolygon(poly, rs.TMS, ids, cfg)
				}()
				rep.Calls++
				rep.Transitions++
				if pan != nil {
					sig := fmt.Sprintf("panic:%s:%s:deepest-id%d", sweepPanicClass(pan), rs.Name, zd)
					r.Violation(sig, fmt.Sprintf("%s ids %v, triangle with a vertex %.3g inside the top right corner of the extent: %v", rs.Name, ids, 8e-9, pan),
						sweepCase{Set: rs.Name, ID: z, Deepest: zd, Anchor: [2]string{"last-position", "last-position"}, Cfg: cfg, Polygon: poly, Got: fmt.Sprint(pan)})
				} else {
					rep.Nontrivial++
				}
			}
		}
	}
	for _, ax := range anchors {
		for _, ay := range anchors {
			for pi := 0; pi < nProbes; pi++ {
				shape := probeShapes[pi]
				poly := geom.Polygon{make([][2]float64, len(shape))}
				for i, v := range shape {
					poly[0][i] = [2]float64{cx + (float64(ax.at)+v[0])*pixelF, cy + (float64(ay.at)+v[1])*pixelF}
				}
				for _, cfg := range cfgs {
					var res map[int][]geom.Polygon
					var pan any
					func() {
						defer func() { pan = recover() }()
						res = snap.SnapPolygon(poly, rs.TMS, ids, cfg)
					}()
					rep.Calls++
					rep.Transitions++
					mk := func(got string) sweepCase {
						return sweepCase{Set: rs.Name, ID: z, Deepest: zd, Anchor: [2]string{ax.name, ay.name}, Probe: pi, Cfg: cfg, Polygon: poly, Got: got}
					}
					if pan != nil {
						if mode == "C03" {
							rep.Extra["panicked(C06)"]++
							continue
						}
						class := "panic:" + sweepPanicClass(pan)
						sig := fmt.Sprintf("%s:%s:deepest-id%d", class, rs.Name, zd)
						r.Violation(sig, fmt.Sprintf("%s ids %v, polygon inside the extent at anchor (%s,%s): %v", rs.Name, ids, ax.name, ay.name, pan), mk(fmt.Sprint(pan)))
						continue
					}
					rep.Nontrivial++
					if mode != "C03" {
						continue
					}
					// every ordinate returned for id z is an ideal pixel centre of z (within the reported deviation)
					worst, worstAt := 0.0, ""
					for _, pl := range res[z] {
						for _, ring := range pl {
							for _, v := range ring {
								for axis, corner := range []*big.Rat{rs.CornerX, rs.CornerY} {
									d := offCentre(v[axis], corner, pixel)
									tol := math.Abs(devUnits) + 2e-10 + math.Abs(v[axis])*2.3e-16
									if d > tol && d-tol > worst {
										worst, worstAt = d-tol, fmt.Sprintf("ordinate %v (axis %d) is %.3g units (%.3g pixels) from the nearest ideal pixel centre; reported deviation %.3g", v[axis], axis, d, d/pixelF, devUnits)
									}
								}
							}
						}
					}
					if worstAt != "" {
						sig := fmt.Sprintf("off-centre:%s:id%d", rs.Name, z)
						r.Violation(sig, fmt.Sprintf("%s id %d (requested %v) anchor (%s,%s): %s", rs.Name, z, ids, ax.name, ay.name, worstAt), mk(fmt.Sprint(res[z])))
					}
					if !inIDs(res, ids) {
						r.Violation("foreign-key", fmt.Sprintf("%s: result has keys outside %v", rs.Name, ids), mk(fmt.Sprint(res)))
					}
				}
			}
		}
	}
}

func sweepPanicClass(p any) string {
	if err, ok := p.(error); ok {
		oge := new(pointindex.OutsideGridError)
		if errors.As(err, oge) {
			return "in-extent-vertex-rejected"
		}
	}
	s := fmt.Sprint(p)
	switch {
	case strings.Contains(s, "cannot make Z"):
		return "morton-overflow"
	case strings.Contains(s, "index out of range"), strings.Contains(s, "slice bounds"):
		return "index-out-of-range"
	case strings.Contains(s, "no points found"):
		return "no-points-found"
	case strings.Contains(s, "divide by zero"):
		return "divide-by-zero"
	}
	f := strings.Fields(s)
	if len(f) > 4 {
		f = f[:4]
	}
	return strings.Join(f, "-")
}

// offCentre: distance of x to the nearest ideal centre corner + (i+1/2)*pixel, exact
func offCentre(x float64, corner, pixel *big.Rat) float64 {
	xr := new(big.Rat).SetFloat64(x)
	t := new(big.Rat).Quo(new(big.Rat).Sub(xr, corner), pixel) // pixel coordinate
	// i = floor(t)
	i := new(big.Int).Quo(t.Num(), t.Denom())
	if t.Sign() < 0 && new(big.Rat).SetInt(i).Cmp(t) != 0 {
		i.Sub(i, big.NewInt(1))
	}
	ideal := new(big.Rat).Add(corner, new(big.Rat).Mul(pixel, new(big.Rat).Add(new(big.Rat).SetInt(i), big.NewRat(1, 2))))
	d := new(big.Rat).Sub(xr, ideal)
	return math.Abs(ratF(d))
}

func deviation(tms tms20.TileMatrixSet, deepest int) (stats string, units, pixels float64, err error) {
	defer func() {
		if p := recover(); p != nil {
			err = fmt.Errorf("DeviationStats panicked: %v", p)
		}
	}()
	return pointindex.DeviationStats(tms, deepest)
}

func init() {
	register(&Prop{ID: "C03", Scopes: func(bool) []Scope { return nil }, Extras: []func(*ev.Run, int, int) scopeReport{realSweep("C03"), synthSweepC03},
		Rule: "state = (accepted built-in set, id z, deepest id z' requested together); for each state 9 anchors (min edge / middle / max edge of the extent per axis) x all four flag combinations x probe polygons of 3x3 pixels of z are snapped by the real code and every returned ordinate of id z is compared with the ideal pixel centre corner + (i+1/2)*cellSize(z)/16 computed in exact rationals from the document; tolerance = the deviation reported by DeviationStats for z' + 2e-10 + 1 ulp; plus synthetic grids with tile width 1/4/256, both corners of origin, three origins (one whose ordinates differ by no whole number of pixels) and both axis orders of the reference system (x/y, y/x); non-trivial = calls that returned"})
}

// synthSweepC03: synthetic round grids where the level arithmetic (tile width, factor 16) is exercised:
// tile width 1, 4, 256 x both corners of origin x two origins x every non-empty subset of ids {0,1,2,3}, ascending and descending, and three unordered lists.
func synthSweepC03(r *ev.Run, shardI, shardN int) scopeReport {
	t0 := time.Now()
	rep := scopeReport{Scope: "synthetic tile widths", Grid: "synthetic dyadic quadtrees", Exhaustive: true, Extra: map[string]int64{}}
	n := 0
	for _, tw := range []uint{1, 4, 256} {
		for _, corner := range []tms20.CornerOfOrigin{tms20.BottomLeft, tms20.TopLeft} {
			for _, o := range [][2]float64{{0, 0}, {-96, 32}, {-97, 32.375}} { // the last: ordinates that differ by no whole number of pixels of any id
				const deepest = 3
				px := 0.25 // pixel of id 3
				for _, yx := range []bool{false, true} {
					tmsS := gridSynth(deepest, px, o[0], o[1], tw, corner)
					axes := "xy"
					if yx {
						tmsS = grid.SynthYX(deepest, px, o[0], o[1], tw, corner)
						axes = "yx"
					}
					idLists := subsetsOf([]int{0, 1, 2, 3})
					for _, l := range subsetsOf([]int{0, 1, 2, 3}) { // every subset also written in descending order
						if len(l) > 1 {
							d := make([]int, len(l))
							for i, v := range l {
								d[len(l)-1-i] = v
							}
							idLists = append(idLists, d)
						}
					}
					idLists = append(idLists, []int{1, 3, 0}, []int{2, 0, 3, 1}, []int{3, 3, 1})
					for _, ids := range idLists {
						n++
						if n%shardN != shardI {
							continue
						}
						rep.States++
						for _, z := range ids {
							pz := px * float64(uint(1)<<uint(deepest-z))
							size := int64(16*tw) << uint(z)
							for _, at := range []int64{0, size/2 - 1, size - 3} {
								for pi, shape := range probeShapes {
									poly := geom.Polygon{make([][2]float64, len(shape))}
									for i, v := range shape {
										poly[0][i] = [2]float64{o[0] + (float64(at)+v[0]*0.999)*pz, o[1] + (float64(at)+v[1]*0.999)*pz}
									}
									for _, cfg := range keepCfgs {
										var res map[int][]geom.Polygon
										var pan any
										func() {
											defer func() { pan = recover() }()
											res = snap.SnapPolygon(poly, tmsS, ids, cfg)
										}()
										rep.Calls++
										rep.Transitions++
										if pan != nil {
											rep.Extra["panicked(C06)"]++
											continue
										}
										rep.Nontrivial++
										for _, zz := range ids {
											pzz := px * float64(uint(1)<<uint(deepest-zz))
											for _, pl := range res[zz] {
												for _, ring := range pl {
													for _, v := range ring {
														fx, fy := (v[0]-o[0])/pzz-0.5, (v[1]-o[1])/pzz-0.5
														if fx != math.Floor(fx) || fy != math.Floor(fy) {
															r.Violation(fmt.Sprintf("off-centre:synthetic:tw%d:%s", tw, axes), fmt.Sprintf("synthetic grid tile width %d corner %s origin %v axis order %s ids %v: coordinate %v returned for id %d is not a pixel centre (pixel %v)", tw, corner, o, axes, ids, v, zz, pzz),
																sweepCase{Set: fmt.Sprintf("synthetic tw=%d corner=%s origin=%v axes=%s", tw, corner, o, axes), ID: zz, Deepest: ids[len(ids)-1], Probe: pi, Cfg: cfg, Polygon: poly, Got: fmt.Sprint(res[zz])})
														}
													}
												}
											}
										}
									}
								}
							}
						}
					}
				}
			}
		}
	}
	rep.Bound = "tile width {1,4,256} x corner of origin {bottomLeft, topLeft} x origin {(0,0), (-96,32), (-97,32.375)} x axis order of the reference system {x/y, y/x: point of origin written y first} x 15 id subsets of {0,1,2,3} x 3 anchors x 8 probe shapes x keep on/off"
	rep.Inputs = rep.Calls
	rep.States++
	rep.WallS = time.Since(t0).Seconds()
	return rep
}
