package main

import (
	"fmt"
	"hash/fnv"
	"reflect"
	"strings"
	"time"

	"github.com/go-spatial/geom"
	"github.com/pdok/texel/snap"
	"verif/engine/ev"
	"verif/engine/lat"
	"verif/engine/ref"
)

func reverseRing(r [][2]float64) [][2]float64 {
	out := make([][2]float64, len(r))
	for i := range r {
		out[len(r)-1-i] = r[i]
	}
	return out
}

func hashResult(res map[int][]geom.Polygon, pan any) uint64 {
	h := fnv.New64a()
	fmt.Fprint(h, res, pan) // fmt prints maps with sorted keys
	return h.Sum64()
}

// judgeC07plain: on the un-instrumented code — repetition, every subset of
// rings given in the opposite direction (valid inputs), and the reverse flag.
func judgeC07plain(sc *Scope, rings [][]ref.P, acc *Acc) []Problem {
	var probs []Problem
	poly := toPolygon(sc.G, rings)
	units := toUnits(sc.G, rings)
	if nontrivialInput(sc, units, sc.G.Deepest) {
		acc.Nontrivial++
	}
	for _, ids := range sc.IDSets {
		for _, cfg := range cfgsOr(sc.Cfgs) {
			keep := cfg.KeepPointsAndLines
			base, pan := run(sc.G, poly, ids, cfg)
			acc.Calls++
			acc.outcome(base)
			recordDigest(acc, hashResult(base, pan))
			if pan != nil {
				acc.Extra["panicked(C06)"]++
				continue
			}
			// repetition in the same process
			for rep := 0; rep < 2; rep++ {
				again, pan2 := run(sc.G, poly, ids, cfg)
				acc.Calls++
				if pan2 != nil || !reflect.DeepEqual(base, again) {
					probs = append(probs, Problem{Sig: "repetition-differs", What: "the same call returns different geometry when repeated", IDs: ids, Cfg: cfg, Got: map[string]any{"first": base, "again": again}})
					break
				}
			}
			// every non-empty subset of rings in the opposite direction
			if sc.Spec.Valid {
				for mask := 1; mask < 1<<uint(len(poly)); mask++ {
					p2 := make(geom.Polygon, len(poly))
					for i := range poly {
						if mask>>uint(i)&1 == 1 {
							p2[i] = reverseRing(poly[i])
						} else {
							p2[i] = poly[i]
						}
					}
					got, pan2 := run(sc.G, p2, ids, cfg)
					acc.Calls++
					if pan2 != nil || !reflect.DeepEqual(base, got) {
						probs = append(probs, Problem{Sig: "ring-direction-matters", What: fmt.Sprintf("giving rings %b in the opposite direction changes the result", mask), IDs: ids, Cfg: cfg, Got: map[string]any{"as-given": base, "reversed-input": got, "panic": pan2}})
						break
					}
				}
			}
			// the same with every ring written closed (first vertex repeated at the end): again a ring given in the
			// opposite direction must not change anything
			if sc.Spec.Valid {
				pc := make(geom.Polygon, len(poly))
				for i := range poly {
					pc[i] = append(append([][2]float64{}, poly[i]...), poly[i][0])
				}
				baseC, panC := run(sc.G, pc, ids, cfg)
				acc.Calls++
				if panC == nil {
					for i := 0; i <= len(pc); i++ { // ring i reversed; i == len: all rings reversed
						p2 := make(geom.Polygon, len(pc))
						for j := range pc {
							if j == i || i == len(pc) {
								p2[j] = reverseRing(pc[j])
							} else {
								p2[j] = pc[j]
							}
						}
						got, pan2 := run(sc.G, p2, ids, cfg)
						acc.Calls++
						if pan2 != nil || !reflect.DeepEqual(baseC, got) {
							probs = append(probs, Problem{Sig: "ring-direction-matters:closed-rings", What: fmt.Sprintf("rings written closed: giving ring %d (%d = all) in the opposite direction changes the result", i, len(pc)), IDs: ids, Cfg: cfg, Got: map[string]any{"as-given": baseC, "reversed-input": got, "panic": pan2}})
							break
						}
					}
				}
			}
			// reverse winding order: every ring of >= 3 vertices reversed, nothing else
			cfgR := snap.Config{KeepPointsAndLines: keep, ReverseWindingOrder: true}
			rev, pan3 := run(sc.G, poly, ids, cfgR)
			acc.Calls++
			if pan3 != nil {
				probs = append(probs, Problem{Sig: "reverse-flag-panics", What: fmt.Sprint(pan3), IDs: ids, Cfg: cfgR})
				continue
			}
			if what := compareReversed(base, rev); what != "" {
				probs = append(probs, Problem{Sig: "reverse-flag-changes-more-than-direction", What: what, IDs: ids, Cfg: cfgR, Got: map[string]any{"reverse=false": base, "reverse=true": rev}})
			}
		}
	}
	return probs
}

func compareReversed(a, b map[int][]geom.Polygon) string {
	if len(a) != len(b) {
		return "different sets of tile matrix ids"
	}
	for z, pa := range a {
		pb, ok := b[z]
		if !ok || len(pa) != len(pb) {
			return fmt.Sprintf("id %d: different number of polygons", z)
		}
		for i := range pa {
			if len(pa[i]) != len(pb[i]) {
				return fmt.Sprintf("id %d polygon %d: different number of rings", z, i)
			}
			for j := range pa[i] {
				ra, rb := pa[i][j], pb[i][j]
				if len(ra) >= 3 {
					if !reflect.DeepEqual([][2]float64(ra), reverseRing(rb)) {
						return fmt.Sprintf("id %d polygon %d ring %d: not the reversed ring", z, i, j)
					}
				} else if !reflect.DeepEqual([][2]float64(ra), [][2]float64(rb)) && !reflect.DeepEqual([][2]float64(ra), reverseRing(rb)) {
					// collapsed one/two-vertex parts have no winding order: either direction is fine
					return fmt.Sprintf("id %d polygon %d ring %d: collapsed part differs", z, i, j)
				}
			}
		}
	}
	return ""
}

// digests: outcome hashes in enumeration order, compared between the
// instrumented and the un-instrumented build (conformance of the instrumentation)
func recordDigest(acc *Acc, h uint64) { acc.Digests = append(acc.Digests, h) }

// scopes shared by the plain and the order-exploring part (so digests line up)
func cfgsOr(c []snap.Config) []snap.Config {
	if len(c) == 0 {
		return keepCfgs
	}
	return c
}

func scopesC07orders(thorough bool) []Scope {
	k := func(q, t int) int {
		if thorough {
			return t
		}
		return q
	}
	ids3 := [][]int{{0, 1, 2}}
	keepOnly := []snap.Config{{KeepPointsAndLines: true}}
	multiCfgs := keepOnly
	if thorough {
		multiCfgs = keepCfgs
	}
	scs := []Scope{
		{Name: "L-multi-orders", GS: synthGS(2, 2, [2]int64{28, 28}), Spec: lat.Spec{Points: scale(lat.Window(2, 2, 2), 4), MaxK: 4, Valid: true}, IDSets: ids3, Cfgs: multiCfgs},
		{Name: "L-half-2-orders", GS: synthGS(2, 2, [2]int64{31, 31}), Spec: lat.Spec{Points: lat.Window(2, 2, 2), MaxK: k(3, 4), Valid: true}, IDSets: ids3, Cfgs: keepCfgs},
		// 4x4 coarse lattice on a 2-level grid: shells with a triangular hole, shell collapsing at id 0
		{Name: "L-holes-orders", GS: synthGS(1, 2, [2]int64{13, 13}), Spec: lat.Spec{Points: scale(lat.Window(3, 3, 1), 4), MaxK: 4, Valid: true, MaxHoles: 1, HoleMaxK: 3}, IDSets: [][]int{{0, 1}}, Cfgs: keepCfgs},
		{Name: "C-walk-orders", GS: synthGS(2, 2, [2]int64{31, 31}), Spec: lat.Spec{Points: lat.Centres(2, 2), MinK: 1, MaxK: k(5, 7), Repeats: true}, IDSets: ids3, Cfgs: keepCfgs},
	}
	// every walk over the four pixel centres as the shell (rings wound twice, figure-eights, back-traces:
	// several equal or nested outer rings) with a fixed triangular hole inside the centre square, whose
	// snapped vertices lie on all of those outer rings: hole matching must choose among equal candidates
	scs = append(scs, shellWalkScope(k(8, 9)), holeWalkOnShellScope(k(8, 9)))
	// the families of larger polygons (rings that split into several outer rings, holes that must be
	// matched to one of several shells, equal pieces that cancel): the places where a choice among
	// equal candidates can depend on an iteration order
	for _, f := range familyScopes(thorough) {
		if strings.HasPrefix(f.Name, "F-cells4x4") {
			continue // ~100k inputs: too many for re-execution under every explored order
		}
		f.Cfgs = keepCfgs
		scs = append(scs, f)
	}
	return scs
}

// shellWalkScope: quarter-pixel lattice; centres of a 2x2 window = (2,2) (6,2) (2,6) (6,6)
func shellWalkScope(maxK int) Scope {
	centres := []ref.P{{2, 2}, {6, 2}, {2, 6}, {6, 6}}
	hole := []ref.P{{3, 3}, {3, 5}, {5, 3}}
	return Scope{Name: "S-walk+hole", GS: synthGS(0, 4, [2]int64{6, 6}), Spec: lat.Spec{Suffix: [][]ref.P{hole}, Points: centres, MinK: 3, MaxK: maxK, Repeats: true, NoStutter: true}, IDSets: [][]int{{0}}, Cfgs: keepCfgs}
}

// holeWalkOnShellScope: the mirror image: a fixed shell that snaps to the four centres and every walk over the same
// four centres as its hole: hole pieces that turn into outer rings equal to the shell (with other start vertices),
// inner pieces equal to both: groups of equal rings with several outers and inners, of which some must cancel
func holeWalkOnShellScope(maxK int) Scope {
	centres := []ref.P{{2, 2}, {6, 2}, {2, 6}, {6, 6}}
	shell := []ref.P{{1, 1}, {7, 1}, {7, 7}, {1, 7}}
	return Scope{Name: "H-walk-on-shell", GS: synthGS(0, 4, [2]int64{6, 6}), Spec: lat.Spec{Prefix: [][]ref.P{shell}, Points: centres, MinK: 3, MaxK: maxK, Repeats: true, NoStutter: true}, IDSets: [][]int{{0}}, Cfgs: keepCfgs}
}

func scopesC07plain(thorough bool) []Scope {
	scs := scopesC07orders(thorough)
	k := func(q, t int) int {
		if thorough {
			return t
		}
		return q
	}
	one := [][]int{{0}}
	scs = append(scs,
		Scope{Name: "L-half-2", GS: synthGS(0, 2, [2]int64{7, 7}), Spec: lat.Spec{Points: lat.Window(2, 2, 2), MaxK: k(4, 6), Valid: true}, IDSets: one},
		Scope{Name: "L-holes-2", GS: synthGS(0, 2, [2]int64{7, 7}), Spec: lat.Spec{Points: lat.Window(2, 2, 2), MaxK: k(3, 4), Valid: true, MaxHoles: k(1, 2), HoleMaxK: 3}, IDSets: one},
		// rings of a few pixels at the deepest ids of the real grids, far from the origin: whatever decides the
		// direction of a ring works on coordinates of 1e5..1e7 with areas of 1e-5..1e-3
		Scope{Name: "R-half-2:NetherlandsRDNewQuad-z16", GS: realGS("NetherlandsRDNewQuad", 16, 2, 250000.5, 600000.5), Spec: lat.Spec{Points: lat.Window(2, 2, 2), MaxK: k(4, 5), Valid: true}, IDSets: [][]int{{16}}},
		Scope{Name: "R-holes-2:NetherlandsRDNewQuad-z16", GS: realGS("NetherlandsRDNewQuad", 16, 2, 120000.25, 480000.75), Spec: lat.Spec{Points: lat.Window(2, 2, 2), MaxK: k(3, 4), Valid: true, MaxHoles: 1, HoleMaxK: 3}, IDSets: [][]int{{16}}},
		Scope{Name: "R-half-2:WebMercatorQuad-z20", GS: realGS("WebMercatorQuad", 20, 2, 550000.1, 6800000.2), Spec: lat.Spec{Points: lat.Window(2, 2, 2), MaxK: k(4, 5), Valid: true}, IDSets: [][]int{{20}}},
	)
	return scs
}

// c07History: the result of a call must not depend on which calls were made before it in the same process (anything
// remembered between calls).  Every input of two small scopes is snapped in enumeration order and then again in the
// reverse order, with a call on an unrelated polygon in between; the two results of each input must be deep-equal.
func c07History(r *ev.Run, shardI, shardN int) scopeReport {
	t0 := time.Now()
	rep := scopeReport{Scope: "history-independence", Grid: "synthetic", Exhaustive: true, Extra: map[string]int64{}}
	type in struct {
		rings [][]ref.P
	}
	for _, sc := range []Scope{
		{Name: "L-half-2/history", GS: synthGS(0, 2, [2]int64{7, 7}), Spec: lat.Spec{Points: lat.Window(2, 2, 2), MaxK: 4, Valid: true}, IDSets: [][]int{{0}}},
		{Name: "L-multi/history", GS: synthGS(2, 2, [2]int64{28, 28}), Spec: lat.Spec{Points: scale(lat.Window(2, 2, 2), 4), MaxK: 3, Valid: true}, IDSets: [][]int{{0, 1, 2}, {2}, {0, 2}}},
		{Name: "L-holes-2/history", GS: synthGS(0, 2, [2]int64{7, 7}), Spec: lat.Spec{Points: lat.Window(2, 2, 2), MaxK: 3, Valid: true, MaxHoles: 1, HoleMaxK: 3}, IDSets: [][]int{{0}}},
	} {
		sc := sc
		sc.G = sc.GS.Build()
		var ins []in
		st := lat.Enumerate(sc.Spec, 1, r.Expired, func(w int, rings [][]ref.P) {
			cp := make([][]ref.P, len(rings))
			for i := range rings {
				cp[i] = append([]ref.P{}, rings[i]...)
			}
			ins = append(ins, in{cp})
		})
		if st.Aborted {
			rep.Exhaustive = false
		}
		rep.States += st.States
		rep.Transitions += st.Transitions
		other := toPolygon(sc.G, [][]ref.P{{{0, 0}, {3, 0}, {3, 3}, {1, 1}, {0, 3}}})
		cfgs := []snap.Config{{}, {KeepPointsAndLines: true, ReverseWindingOrder: true}}
		first := make([]map[int][]geom.Polygon, 0, len(ins)*len(sc.IDSets)*len(cfgs))
		for _, x := range ins {
			poly := toPolygon(sc.G, x.rings)
			for _, ids := range sc.IDSets {
				for _, cfg := range cfgs {
					res, _ := run(sc.G, poly, ids, cfg)
					first = append(first, res)
					rep.Calls++
				}
			}
		}
		for i := len(ins) - 1; i >= 0; i-- {
			poly := toPolygon(sc.G, ins[i].rings)
			for a := len(sc.IDSets) - 1; a >= 0; a-- {
				for b := len(cfgs) - 1; b >= 0; b-- {
					_, _ = run(sc.G, other, sc.IDSets[a], cfgs[b])
					res, pan := run(sc.G, poly, sc.IDSets[a], cfgs[b])
					rep.Calls += 2
					want := first[(i*len(sc.IDSets)+a)*len(cfgs)+b]
					if pan != nil || !reflect.DeepEqual(want, res) {
						reportProblem(r, &sc, ins[i].rings, Problem{Sig: "result-depends-on-earlier-calls", What: "the same call returns different geometry depending on which polygons were snapped before it in the same process", IDs: sc.IDSets[a], Cfg: cfgs[b], Got: map[string]any{"first-pass": want, "second-pass": res, "panic": pan}})
					}
				}
			}
		}
		rep.Inputs += int64(len(ins))
		rep.Nontrivial += int64(len(ins))
	}
	rep.Bound = "every input of L-half-2 (<= 4 vertices), L-multi (<= 3 vertices, three id sets) and L-holes-2 (triangle + triangular hole) x two configurations, snapped in enumeration order and again in reverse order with an unrelated call in between"
	rep.States++
	rep.WallS = time.Since(t0).Seconds()
	return rep
}

func init() {
	register(&Prop{ID: "C07plain", EvidenceID: "C07", Scopes: scopesC07plain, Judge: judgeC07plain, Extras: []func(*ev.Run, int, int) scopeReport{c07History},
		Rule: "un-instrumented code: every input of the scopes is snapped three times (identical results required), with every non-empty subset of its rings given in the opposite direction (valid inputs; identical results required) and with reverse-winding on/off (rings of >= 3 vertices exactly reversed, nothing else changed)"})
}
