package main

import (
	"fmt"
	"time"

	"github.com/go-spatial/geom"
	"github.com/pdok/texel/pointindex"
	"github.com/pdok/texel/tms20"
	"verif/engine/ev"
	"verif/engine/grid"
	"verif/engine/ref"
)

// segCase is the replayable description of one API-level routing case.
type segCase struct {
	Deepest int      `json:"deepest_id"`
	ReqID   int      `json:"requested_id"`
	Off     [2]int64 `json:"window_offset_px"` // in pixels of the requested id
	Hot     []ref.PX `json:"hot_pixels"`       // pixel indices at the requested id
	Child   int      `json:"child_choice"`     // which deepest child realises each hot pixel
	P, Q    ref.P    // quarter-pixel units of the requested id
	Line    geom.Line
	Want    [][2]float64 `json:"want"`
	Got     [][2]float64 `json:"got"`
}

// c02Window explores one (deepest, requested id, placement): every non-empty
// subset of the WxW window x every ordered pair of distinct quarter-pixel
// lattice points whose pixels are hot.
func c02Window(r *ev.Run, rep *scopeReport, deepest, req, W int, off [2]int64, childChoices []int, shardI, shardN int) {
	const sub = 4
	g := grid.NewSynth("c02", deepest, 1, 0, 0, 1, tms20.BottomLeft, sub, [2]int64{0, 0})
	dz := uint(deepest - req)
	level := uint(req + 4)
	res := int64(sub) // pixel of the requested id in quarter-pixel units of that id
	pxReq := float64(int64(1) << dz)
	npx := W * W
	n := sub*W + 1
	for mask := 1; mask < 1<<uint(npx); mask++ {
		if mask%shardN != shardI {
			continue
		}
		var hot []ref.PX
		for b := 0; b < npx; b++ {
			if mask>>uint(b)&1 == 1 {
				hot = append(hot, ref.PX{off[0] + int64(b%W), off[1] + int64(b/W)})
			}
		}
		isHot := map[ref.PX]bool{}
		for _, h := range hot {
			isHot[h] = true
		}
		for _, cc := range childChoices {
			rep.States++
			ix, err := pointindex.FromTileMatrixSet(g.TMS, deepest)
			if err != nil {
				ev.HarnessError("FromTileMatrixSet: %v", err)
			}
			for hi, h := range hot {
				// realise the hot pixel by one vertex in one of its deepest children
				c := int64(cc)
				if cc < 0 { // mixed: child depends on the pixel
					c = (h[0]*3 + h[1]*5 + int64(hi)) % (int64(1) << (2 * dz))
				}
				cx, cy := c%(int64(1)<<dz), c/(int64(1)<<dz)
				pt := geom.Point{(float64(h[0])*pxReq + float64(cx) + 0.5), (float64(h[1])*pxReq + float64(cy) + 0.5)}
				if err := ix.InsertPoint(pt); err != nil {
					ev.HarnessError("InsertPoint(%v): %v", pt, err)
				}
			}
			for a := 0; a < n*n; a++ {
				p := ref.P{off[0]*sub + int64(a%n), off[1]*sub + int64(a/n)}
				if !isHot[ref.PixOf(p, res)] {
					continue
				}
				for b := 0; b < n*n; b++ {
					if a == b {
						continue
					}
					q := ref.P{off[0]*sub + int64(b%n), off[1]*sub + int64(b/n)}
					if !isHot[ref.PixOf(q, res)] {
						continue
					}
					want := ref.Route(p, q, hot, res)
					line := geom.Line{{float64(p[0]) * pxReq / sub, float64(p[1]) * pxReq / sub}, {float64(q[0]) * pxReq / sub, float64(q[1]) * pxReq / sub}}
					got := ix.SnapClosestPoints(line, map[uint]any{level: struct{}{}}, 0)[level]
					rep.Calls++
					rep.Transitions++
					if len(want) > 2 {
						rep.Nontrivial++
					}
					ok := len(got) == len(want)
					wantF := make([][2]float64, len(want))
					for k := range want {
						wantF[k] = [2]float64{(float64(want[k][0]) + 0.5) * pxReq, (float64(want[k][1]) + 0.5) * pxReq}
						if ok && got[k] != wantF[k] {
							ok = false
						}
					}
					if !ok {
						sig := "routing:" + classifySeg(p, q, res)
						r.Violation(sig, fmt.Sprintf("segment %v routed through %v, reference says %v (hot pixels %v, requested id %d of deepest %d)", line, got, wantF, hot, req, deepest),
							segCase{Deepest: deepest, ReqID: req, Off: off, Hot: hot, Child: cc, P: p, Q: q, Line: line, Want: wantF, Got: got})
					}
				}
			}
		}
	}
}

// classifySeg names the tie configuration of a segment (mechanism signature).
func classifySeg(p, q ref.P, res int64) string {
	on := func(v ref.P) string {
		s := ""
		if v[0]%res == 0 {
			s += "X"
		}
		if v[1]%res == 0 {
			s += "Y"
		}
		if s == "" {
			s = "-"
		}
		return s
	}
	thru := false
	dx, dy := q[0]-p[0], q[1]-p[1]
	lox, hix := min(p[0], q[0]), max(p[0], q[0])
	loy, hiy := min(p[1], q[1]), max(p[1], q[1])
	for cx := ref.FloorDiv(lox, res) * res; cx <= hix; cx += res {
		for cy := ref.FloorDiv(loy, res) * res; cy <= hiy; cy += res {
			if cx < lox || cy < loy {
				continue
			}
			cr := (cx-p[0])*dy - (cy-p[1])*dx
			c := ref.P{cx, cy}
			if cr == 0 && c != p && c != q {
				thru = true
			}
		}
	}
	return fmt.Sprintf("end-on-border=%s/%s,through-corner=%v,axis-parallel=%v", on(p), on(q), thru, dx == 0 || dy == 0)
}

func c02API(r *ev.Run, shardI, shardN int) scopeReport {
	t0 := time.Now()
	rep := scopeReport{Scope: "API-segments", Grid: "synthetic dyadic quadtree, depth 4..7", Exhaustive: true, Extra: map[string]int64{}}
	thorough := r.Thorough()
	type cfg struct{ deepest, req int }
	cfgs := []cfg{{0, 0}, {1, 1}, {2, 2}, {1, 0}, {2, 1}, {2, 0}}
	if thorough {
		cfgs = append(cfgs, cfg{3, 3}, cfg{3, 2}, cfg{3, 1})
	}
	for _, c := range cfgs {
		size := int64(1) << uint(c.req+4)
		offs := [][2]int64{{size/2 - 1, size/2 - 1}, {size/2 - 2, size / 2}, {0, 0}, {size - 2, size - 2}, {5, 9}}
		dz := c.deepest - c.req
		children := []int{0}
		switch dz {
		case 1:
			children = []int{0, 1, 2, 3, -1}
		case 2:
			children = []int{0, 3, 12, 15, 6, -1}
		}
		for _, off := range offs {
			if r.Expired() {
				rep.Exhaustive = false
				break
			}
			c02Window(r, &rep, c.deepest, c.req, 2, off, children, shardI, shardN)
		}
	}
	{
		// 3x3 window on the deepest id only: a window that contains a whole 2x2 quadtree cell plus
		// pixels outside it (one endpoint inside a cell, the other outside) and one straddling the root centre
		offs3 := [][2]int64{{6, 6}, {7, 7}}
		if thorough {
			offs3 = append(offs3, [2]int64{6, 7}, [2]int64{0, 0}, [2]int64{13, 13}, [2]int64{5, 8})
		}
		for _, off := range offs3 {
			if r.Expired() {
				rep.Exhaustive = false
				break
			}
			c02Window(r, &rep, 0, 0, 3, off, []int{0}, shardI, shardN)
		}
	}
	rep.Bound = "2x2 pixel window, quarter-pixel lattice, every non-empty hot set x every ordered pair of lattice points in hot pixels; index depth 4..6 (thorough 7), requested id = deepest, deepest-1, deepest-2 with several child realisations; 5 placements incl. root centre and extent corners; plus the 3x3 window on the deepest id at 2 (thorough 6) placements"
	rep.Inputs = rep.Calls
	rep.States++ // compensated by the parent's shared-root correction
	rep.WallS = time.Since(t0).Seconds()
	return rep
}

func init() {
	register(&Prop{ID: "C02", Scopes: scopesValid, Judge: judgeC02Poly, Extras: []func(*ev.Run, int, int) scopeReport{c02API},
		Rule: "(1) API level: every non-empty set of occupied pixels of a small window x every ordered pair of distinct quarter-pixel lattice points lying in occupied pixels, routed by the real PointIndex.SnapClosestPoints at several index depths / requested levels / placements and compared with the exact half-open-pixel reference router (states = index configurations, transitions = segments routed; non-trivial = reference route has an inserted centre); (2) every valid lattice polygon whose reference-routed boundary visits each centre at most once must come back as exactly the routed chains (non-trivial = a centre was inserted)"})
}
