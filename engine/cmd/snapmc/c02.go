package main

import (
	"fmt"
	"math"
	"time"

	"github.com/go-spatial/geom"
	"github.com/pdok/texel/pointindex"
	"github.com/pdok/texel/tms20"
	"verif/engine/ev"
	"verif/engine/grid"
	"verif/engine/lat"
	"verif/engine/ref"
)

// segCase is the replayable description of one API-level routing case.
type segCase struct {
	Deepest int      `json:"deepest_id"`
	ReqID   int      `json:"requested_id"`
	Off     [2]int64 `json:"window_offset_px"` // in pixels of the requested id
	Hot     []ref.PX `json:"hot_pixels"`       // pixel indices at the requested id
	Child   int      `json:"child_choice"`     // which deepest child realises each hot pixel
	P, Q    ref.P    // quarter-pixel units of the requested id
	Line    geom.Line
	Want    [][2]float64 `json:"want"`
	Got     [][2]float64 `json:"got"`
}

// c02Window explores one (deepest, requested id, placement): every non-empty
// subset of the WxW window x every ordered pair of distinct quarter-pixel
// lattice points whose pixels are hot.
func c02Window(r *ev.Run, rep *scopeReport, deepest, req, W int, off [2]int64, childChoices []int, shardI, shardN int) {
	const sub = 4
	g := grid.NewSynth("c02", deepest, 1, 0, 0, 1, tms20.BottomLeft, sub, [2]int64{0, 0})
	dz := uint(deepest - req)
	level := uint(req + 4)
	res := int64(sub) // pixel of the requested id in quarter-pixel units of that id
	pxReq := float64(int64(1) << dz)
	npx := W * W
	n := sub*W + 1
	for mask := 1; mask < 1<<uint(npx); mask++ {
		if mask%shardN != shardI {
			continue
		}
		var hot []ref.PX
		for b := 0; b < npx; b++ {
			if mask>>uint(b)&1 == 1 {
				hot = append(hot, ref.PX{off[0] + int64(b%W), off[1] + int64(b/W)})
			}
		}
		isHot := map[ref.PX]bool{}
		for _, h := range hot {
			isHot[h] = true
		}
		for _, cc := range childChoices {
			rep.States++
			ix, err := pointindex.FromTileMatrixSet(g.TMS, deepest)
			if err != nil {
				ev.HarnessError("FromTileMatrixSet: %v", err)
			}
			for hi, h := range hot {
				// realise the hot pixel by one vertex in one of its deepest children
				c := int64(cc)
				if cc < 0 { // mixed: child depends on the pixel
					c = (h[0]*3 + h[1]*5 + int64(hi)) % (int64(1) << (2 * dz))
				}
				cx, cy := c%(int64(1)<<dz), c/(int64(1)<<dz)
				pt := geom.Point{(float64(h[0])*pxReq + float64(cx) + 0.5), (float64(h[1])*pxReq + float64(cy) + 0.5)}
				if err := ix.InsertPoint(pt); err != nil {
					ev.HarnessError("InsertPoint(%v): %v", pt, err)
				}
			}
			for a := 0; a < n*n; a++ {
				p := ref.P{off[0]*sub + int64(a%n), off[1]*sub + int64(a/n)}
				if !isHot[ref.PixOf(p, res)] {
					continue
				}
				for b := 0; b < n*n; b++ {
					if a == b {
						continue
					}
					q := ref.P{off[0]*sub + int64(b%n), off[1]*sub + int64(b/n)}
					if !isHot[ref.PixOf(q, res)] {
						continue
					}
					want := ref.Route(p, q, hot, res)
					line := geom.Line{{float64(p[0]) * pxReq / sub, float64(p[1]) * pxReq / sub}, {float64(q[0]) * pxReq / sub, float64(q[1]) * pxReq / sub}}
					got := ix.SnapClosestPoints(line, map[uint]any{level: struct{}{}}, 0)[level]
					rep.Calls++
					rep.Transitions++
					if len(want) > 2 {
						rep.Nontrivial++
					}
					ok := len(got) == len(want)
					wantF := make([][2]float64, len(want))
					for k := range want {
						wantF[k] = [2]float64{(float64(want[k][0]) + 0.5) * pxReq, (float64(want[k][1]) + 0.5) * pxReq}
						if ok && got[k] != wantF[k] {
							ok = false
						}
					}
					if !ok {
						sig := "routing:" + classifySeg(p, q, res)
						r.Violation(sig, fmt.Sprintf("segment %v routed through %v, reference says %v (hot pixels %v, requested id %d of deepest %d)", line, got, wantF, hot, req, deepest),
							segCase{Deepest: deepest, ReqID: req, Off: off, Hot: hot, Child: cc, P: p, Q: q, Line: line, Want: wantF, Got: got})
					}
				}
			}
		}
	}
}

// classifySeg names the tie configuration of a segment (mechanism signature).
func classifySeg(p, q ref.P, res int64) string {
	on := func(v ref.P) string {
		s := ""
		if v[0]%res == 0 {
			s += "X"
		}
		if v[1]%res == 0 {
			s += "Y"
		}
		if s == "" {
			s = "-"
		}
		return s
	}
	thru := false
	dx, dy := q[0]-p[0], q[1]-p[1]
	lox, hix := min(p[0], q[0]), max(p[0], q[0])
	loy, hiy := min(p[1], q[1]), max(p[1], q[1])
	for cx := ref.FloorDiv(lox, res) * res; cx <= hix; cx += res {
		for cy := ref.FloorDiv(loy, res) * res; cy <= hiy; cy += res {
			if cx < lox || cy < loy {
				continue
			}
			cr := (cx-p[0])*dy - (cy-p[1])*dx
			c := ref.P{cx, cy}
			if cr == 0 && c != p && c != q {
				thru = true
			}
		}
	}
	return fmt.Sprintf("end-on-border=%s/%s,through-corner=%v,axis-parallel=%v", on(p), on(q), thru, dx == 0 || dy == 0)
}

// c02RealWindow: every non-empty hot set of a 2x2 window of a real grid block x every ordered pair of
// lattice points in hot pixels; the reference sees the coordinates as the tool's quantisation does.
func c02RealWindow(r *ev.Run, rep *scopeReport, gs GridSpec, shardI, shardN int) {
	g := gs.Build()
	const W = 2
	sub := g.Sub
	res := g.ResDeepest
	tw := g.TMS.TileMatrices[0].TileWidth
	level := uint(g.Deepest) + uint(math.Log2(float64(tw))) + 4
	n := int(sub)*W + 1
	unitsOf := func(p ref.P) (ref.P, [2]float64) {
		u := g.U(p)
		f := g.F(u)
		return ref.P{grid.Quantise(f[0]) - g.MinX - g.AnchorPx[0]*res, grid.Quantise(f[1]) - g.MinY - g.AnchorPx[1]*res}, f
	}
	for mask := 1; mask < 1<<uint(W*W); mask++ {
		if mask%shardN != shardI {
			continue
		}
		rep.States++
		var hot []ref.PX
		isHot := map[ref.PX]bool{}
		ix, err := pointindex.FromTileMatrixSet(g.TMS, g.Deepest)
		if err != nil {
			ev.HarnessError("%v", err)
		}
		for b := 0; b < W*W; b++ {
			if mask>>uint(b)&1 == 1 {
				px := ref.PX{int64(b % W), int64(b / W)}
				hot = append(hot, px)
				isHot[px] = true
				_, f := unitsOf(ref.P{px[0]*sub + sub/2, px[1]*sub + sub/2})
				if err := ix.InsertPoint(geom.Point(f)); err != nil {
					ev.HarnessError("InsertPoint: %v", err)
				}
			}
		}
		for a := 0; a < n*n; a++ {
			pu, pf := unitsOf(ref.P{int64(a % n), int64(a / n)})
			if !isHot[ref.PixOf(pu, res)] {
				continue
			}
			for b := 0; b < n*n; b++ {
				if a == b {
					continue
				}
				qu, qf := unitsOf(ref.P{int64(b % n), int64(b / n)})
				if !isHot[ref.PixOf(qu, res)] {
					continue
				}
				want := ref.Route(pu, qu, hot, res)
				got := ix.SnapClosestPoints(geom.Line{pf, qf}, map[uint]any{level: struct{}{}}, 0)[level]
				rep.Calls++
				rep.Transitions++
				if len(want) > 2 {
					rep.Nontrivial++
				}
				ok := len(got) == len(want)
				var gotPx []ref.PX
				for k := range got {
					px, dok := g.Decode(g.Deepest, got[k])
					gotPx = append(gotPx, px)
					if !dok || !ok || px != want[k] {
						ok = false
					}
				}
				if !ok {
					r.Violation("routing-real-grid:"+classifySeg(pu, qu, res), fmt.Sprintf("%s: segment %v -> %v routed through pixels %v (coordinates %v), reference says %v (hot %v)", g.String(), pf, qf, gotPx, got, want, hot),
						map[string]any{"grid": gs, "hot": hot, "p": pf, "q": qf, "want": want, "got": got})
				}
			}
		}
	}
}

// selfCheckRouter compares the reference router with brute-force sampling of the segment at
// t = k/1680 (a multiple of every critical parameter's denominator on the quarter-pixel lattice of
// a 2x2 window, and of their midpoints): hot pixels containing a sample, ordered by first sample.
func selfCheckRouter() int64 {
	const sub, W, N = 4, 2, 1680
	n := sub*W + 1
	var checked int64
	for mask := 1; mask < 1<<uint(W*W); mask++ {
		var hot []ref.PX
		for b := 0; b < W*W; b++ {
			if mask>>uint(b)&1 == 1 {
				hot = append(hot, ref.PX{int64(b % W), int64(b / W)})
			}
		}
		for a := 0; a < n*n; a++ {
			for b := 0; b < n*n; b++ {
				if a == b {
					continue
				}
				p, q := ref.P{int64(a % n), int64(a / n)}, ref.P{int64(b % n), int64(b / n)}
				want := ref.Route(p, q, hot, sub)
				var got []ref.PX
				seen := map[ref.PX]bool{}
				for k := int64(0); k <= N; k++ {
					// point p + k/N (q-p), scaled by N
					x, y := p[0]*N+k*(q[0]-p[0]), p[1]*N+k*(q[1]-p[1])
					px := ref.PX{ref.FloorDiv(x, sub*N), ref.FloorDiv(y, sub*N)}
					for _, h := range hot {
						if h == px && !seen[px] {
							seen[px] = true
							got = append(got, px)
						}
					}
				}
				if fmt.Sprint(got) != fmt.Sprint(want) {
					ev.HarnessError("reference router disagrees with brute-force sampling for %v -> %v hot %v: %v vs %v", p, q, hot, want, got)
				}
				checked++
			}
		}
	}
	return checked
}

func c02API(r *ev.Run, shardI, shardN int) scopeReport {
	t0 := time.Now()
	var selfChecked int64
	if shardI == 0 {
		selfChecked = selfCheckRouter()
	}
	rep := scopeReport{Scope: "API-segments", Grid: "synthetic dyadic quadtree, depth 4..7", Exhaustive: true, Extra: map[string]int64{}}
	thorough := r.Thorough()
	type cfg struct{ deepest, req int }
	cfgs := []cfg{{0, 0}, {1, 1}, {2, 2}, {1, 0}, {2, 1}, {2, 0}}
	if thorough {
		cfgs = append(cfgs, cfg{3, 3}, cfg{3, 2}, cfg{3, 1})
	}
	for _, c := range cfgs {
		size := int64(1) << uint(c.req+4)
		offs := [][2]int64{{size/2 - 1, size/2 - 1}, {size/2 - 2, size / 2}, {0, 0}, {size - 2, size - 2}, {5, 9}}
		dz := c.deepest - c.req
		children := []int{0}
		switch dz {
		case 1:
			children = []int{0, 1, 2, 3, -1}
		case 2:
			children = []int{0, 3, 12, 15, 6, -1}
		}
		for _, off := range offs {
			if r.Expired() {
				rep.Exhaustive = false
				break
			}
			c02Window(r, &rep, c.deepest, c.req, 2, off, children, shardI, shardN)
		}
	}
	{
		// 3x3 window on the deepest id only: a window that contains a whole 2x2 quadtree cell plus
		// pixels outside it (one endpoint inside a cell, the other outside) and one straddling the root centre
		offs3 := [][2]int64{{6, 6}, {7, 7}}
		if thorough {
			offs3 = append(offs3, [2]int64{6, 7}, [2]int64{0, 0}, [2]int64{13, 13}, [2]int64{5, 8})
		}
		for _, off := range offs3 {
			if r.Expired() {
				rep.Exhaustive = false
				break
			}
			c02Window(r, &rep, 0, 0, 3, off, []int{0}, shardI, shardN)
		}
	}
	// the same 2x2 quarter-pixel window on blocks of the real grids (coordinates in 1e-10 fixed point)
	for _, a := range []struct {
		set  string
		z    int
		x, y float64
	}{{"NetherlandsRDNewQuad", 14, 155000, 463000}, {"NetherlandsRDNewQuad", 14, 20000.3, 380000.7}, {"NetherlandsRDNewQuad", 9, 20000.3, 380000.7}, {"WebMercatorQuad", 17, 550000.1, 6800000.2},
		// negative coordinates (west of the RD origin, south-west quadrant of WebMercator): conversions that treat the sign differently
		{"NetherlandsRDNewQuad", 14, -100000.3, 380000.7}, {"NetherlandsRDNewQuad", 5, -43.84, 300000.1}, {"WebMercatorQuad", 17, -550000.1, -6800000.2}} {
		if r.Expired() {
			rep.Exhaustive = false
			break
		}
		c02RealWindow(r, &rep, realGS(a.set, a.z, 4, a.x, a.y), shardI, shardN)
	}
	rep.Bound = "2x2 pixel window, quarter-pixel lattice, every non-empty hot set x every ordered pair of lattice points in hot pixels; index depth 4..6 (thorough 7), requested id = deepest, deepest-1, deepest-2 with several child realisations; 5 placements incl. root centre and extent corners; plus the 3x3 window on the deepest id at 2 (thorough 6) placements"
	rep.Inputs = rep.Calls
	rep.Extra["reference-router-self-check(brute-force-sampling)"] = selfChecked
	rep.States++ // compensated by the parent's shared-root correction
	rep.WallS = time.Since(t0).Seconds()
	return rep
}

// coarsePoints: pixel centres (half-pixel lattice) of every step-th pixel of an n x n arrangement
func coarsePoints(n int, step int64) []ref.P {
	var pts []ref.P
	for j := int64(0); j < int64(n); j++ {
		for i := int64(0); i < int64(n); i++ {
			pts = append(pts, ref.P{2*i*step + 1, 2*j*step + 1})
		}
	}
	return pts
}

// smallHoleShapes: clockwise holes over pixel centres that cannot collapse (three or four distinct, mutually adjacent
// pixels): the four L-shaped triangles and the 2x2 square, every start vertex (half-pixel lattice units)
func smallHoleShapes() [][]ref.P {
	var out [][]ref.P
	base := [][]ref.P{
		{{0, 0}, {0, 2}, {2, 0}}, {{0, 0}, {2, 2}, {2, 0}}, {{0, 0}, {0, 2}, {2, 2}}, {{2, 0}, {0, 2}, {2, 2}},
		{{0, 0}, {0, 2}, {2, 2}, {2, 0}},
	}
	for _, b := range base {
		if ref.Area2(b) > 0 {
			ev.HarnessError("hole shape %v is not clockwise", b)
		}
		out = append(out, rotations(b, allRot(len(b)))...)
	}
	return out
}

// scopesC02: the common valid scopes plus large non-collapsing shells with small holes anywhere inside (the second
// sentence of the property: nothing collapses, so the result must be exactly the routed rings - hole matching, ring
// order and orientation are then visible as plain inequality)
func scopesC02(thorough bool) []Scope {
	scs := scopesValid(thorough)
	var offs []ref.P
	for j := int64(0); j < 10; j++ {
		for i := int64(0); i < 10; i++ {
			offs = append(offs, ref.P{2*i + 1, 2*j + 1})
		}
	}
	scs = append(scs, Scope{Name: "L-coarse-shell-small-holes", GS: synthGS(0, 2, [2]int64{2, 3}),
		Spec:   lat.Spec{Points: coarsePoints(3, 5), MaxK: 5, Valid: true, MaxHoles: 1, HoleShapes: smallHoleShapes(), HoleOffsets: offs},
		IDSets: [][]int{{0}}, Cfgs: keepCfgs})
	if thorough {
		scs = append(scs, Scope{Name: "L-coarse4-shell-small-holes", GS: synthGS(0, 2, [2]int64{3, 2}),
			Spec:   lat.Spec{Points: coarsePoints(4, 3), MaxK: 4, Valid: true, MaxHoles: 2, HoleShapes: smallHoleShapes()[:4], HoleOffsets: offs},
			IDSets: [][]int{{0}}, Cfgs: keepCfgs})
	}
	return scs
}

func init() {
	register(&Prop{ID: "C02", Scopes: scopesC02, Judge: judgeC02Poly, Extras: []func(*ev.Run, int, int) scopeReport{c02API},
		Rule: "(1) API level: every non-empty set of occupied pixels of a small window x every ordered pair of distinct quarter-pixel lattice points lying in occupied pixels, routed by the real PointIndex.SnapClosestPoints at several index depths / requested levels / placements and compared with the exact half-open-pixel reference router (states = index configurations, transitions = segments routed; non-trivial = reference route has an inserted centre); (2) every valid lattice polygon whose reference-routed boundary visits each centre at most once must come back as exactly the routed chains (non-trivial = a centre was inserted)"})
}
