package main

import (
	"fmt"
	"sort"

	"verif/engine/ref"
)

// fraction with positive denominator; values in these scopes are tiny
type fr struct{ n, d int64 }

func frLess(a, b fr) bool { return a.n*b.d < b.n*a.d }
func frLeq(a, b fr) bool  { return a.n*b.d <= b.n*a.d }

// clipHalfPlane narrows [lo,hi] to the t with  c0 + t*c1 <= 0
func clipHalfPlane(lo, hi *fr, c0, c1 int64) bool {
	if c1 == 0 {
		return c0 <= 0
	}
	// t*c1 <= -c0
	t := fr{-c0, c1}
	if c1 < 0 {
		t = fr{c0, -c1}
		// t >= -c0/c1
		if frLess(*lo, t) {
			*lo = t
		}
	} else if frLess(t, *hi) {
		*hi = t
	}
	return frLeq(*lo, *hi)
}

// coverInterval: parameter interval of the segment a->b (t in [0,1]) inside
// e ⊕ [-r,r]^2 where e is the segment p->q (closed convex hexagon), exact.
func coverInterval(a, b, p, q ref.P, r int64) (lo, hi fr, ok bool) {
	lo, hi = fr{0, 1}, fr{1, 1}
	dx, dy := b[0]-a[0], b[1]-a[1]
	minx, maxx := min(p[0], q[0])-r, max(p[0], q[0])+r
	miny, maxy := min(p[1], q[1])-r, max(p[1], q[1])+r
	// x >= minx  <=>  minx - a.x - t*dx <= 0
	if !clipHalfPlane(&lo, &hi, minx-a[0], -dx) || !clipHalfPlane(&lo, &hi, a[0]-maxx, dx) ||
		!clipHalfPlane(&lo, &hi, miny-a[1], -dy) || !clipHalfPlane(&lo, &hi, a[1]-maxy, dy) {
		return lo, hi, false
	}
	// |cross(e, x - p)| <= r(|ex|+|ey|)
	ex, ey := q[0]-p[0], q[1]-p[1]
	if ex != 0 || ey != 0 {
		lim := r * (abs64(ex) + abs64(ey))
		c0 := ex*(a[1]-p[1]) - ey*(a[0]-p[0])
		c1 := ex*dy - ey*dx
		if !clipHalfPlane(&lo, &hi, c0-lim, c1) || !clipHalfPlane(&lo, &hi, -c0-lim, -c1) {
			return lo, hi, false
		}
	}
	return lo, hi, true
}

func abs64(a int64) int64 {
	if a < 0 {
		return -a
	}
	return a
}

// covered: segment a->b lies inside the union of e ⊕ [-r,r]^2 over all input edges
func covered(a, b ref.P, in [][]ref.P, r int64) bool {
	type iv struct{ lo, hi fr }
	var ivs []iv
	for _, ring := range in {
		n := len(ring)
		for i := 0; i < n; i++ {
			if lo, hi, ok := coverInterval(a, b, ring[i], ring[(i+1)%n], r); ok {
				ivs = append(ivs, iv{lo, hi})
			}
		}
	}
	sort.Slice(ivs, func(i, j int) bool { return frLess(ivs[i].lo, ivs[j].lo) })
	reach := fr{0, 1}
	if len(ivs) == 0 || frLess(reach, ivs[0].lo) {
		return false
	}
	for _, v := range ivs {
		if frLess(reach, v.lo) {
			return false
		}
		if frLess(reach, v.hi) {
			reach = v.hi
		}
	}
	return frLeq(fr{1, 1}, reach)
}

// segHitsBox: closed segment a->b meets the closed box
func segHitsBox(a, b ref.P, x0, y0, x1, y1 int64) bool {
	lo, hi := fr{0, 1}, fr{1, 1}
	dx, dy := b[0]-a[0], b[1]-a[1]
	return clipHalfPlane(&lo, &hi, x0-a[0], -dx) && clipHalfPlane(&lo, &hi, a[0]-x1, dx) &&
		clipHalfPlane(&lo, &hi, y0-a[1], -dy) && clipHalfPlane(&lo, &hi, a[1]-y1, dy)
}

func insideInput(in [][]ref.P, q ref.P) bool {
	if ref.PointInRing(in[0], q) != 1 {
		return false
	}
	for _, h := range in[1:] {
		if ref.PointInRing(h, q) >= 0 {
			return false
		}
	}
	return true
}

func judgeC04(sc *Scope, rings [][]ref.P, acc *Acc) []Problem {
	var probs []Problem
	poly := toPolygon(sc.G, rings)
	units := toUnits(sc.G, rings)
	// scaled units: x8 so that pixel centres and quarter-pixel sample locations are integers
	const S = 8
	in := make([][]ref.P, len(units))
	var bx0, by0, bx1, by1 int64
	first := true
	for i, r := range units {
		in[i] = make([]ref.P, len(r))
		for j, u := range r {
			in[i][j] = ref.P{u[0] * S, u[1] * S}
			if first || in[i][j][0] < bx0 {
				bx0 = in[i][j][0]
			}
			if first || in[i][j][0] > bx1 {
				bx1 = in[i][j][0]
			}
			if first || in[i][j][1] < by0 {
				by0 = in[i][j][1]
			}
			if first || in[i][j][1] > by1 {
				by1 = in[i][j][1]
			}
			first = false
		}
	}
	if nontrivialInput(sc, units, sc.G.Deepest) {
		acc.Nontrivial++
	}
	for _, ids := range sc.IDSets {
		for _, cfg := range sc.Cfgs {
			res, pan := run(sc.G, poly, ids, cfg)
			acc.Calls++
			if pan != nil {
				acc.Extra["panicked(C06)"]++
				continue
			}
			acc.outcome(res)
			for _, z := range ids {
				dec, bad := decode(sc.G, z, res[z])
				if bad != "" {
					// a coordinate that is no pixel centre of this id at all is, a fortiori, not the pixel centre of an
					// input vertex (first clause); C04 runs on synthetic dyadic grids only, where decoding is exact
					acc.Extra["undecodable(C03)"]++
					probs = append(probs, Problem{Sig: "vertex-not-a-pixel-centre", What: fmt.Sprintf("id %d: %s", z, bad), IDs: ids, Cfg: cfg, Got: res})
					continue
				}
				m := model(sc.G, units, z)
				sigSuffix := fmt.Sprintf("visits=%d", m.MaxV)
				if m.MaxV >= 3 {
					sigSuffix = "routed-centre-visits>=3"
				}
				resz := sc.G.Res(z) * S // pixel size in scaled units
				hot := map[ref.PX]bool{}
				for _, h := range m.Hot {
					hot[h] = true
				}
				centre := func(px ref.PX) ref.P { return ref.P{px[0]*resz + resz/2, px[1]*resz + resz/2} }
				var out [][][]ref.P
				problem := ""
				sig := ""
				for pi, pl := range dec {
					var prs [][]ref.P
					for ri, r := range pl {
						cr := make([]ref.P, len(r))
						for i, v := range r {
							// (a) every output vertex is the centre of a pixel containing an input vertex
							if !hot[v] && problem == "" {
								sig, problem = "vertex-not-from-input", fmt.Sprintf("id %d polygon %d ring %d: vertex %v (pixel index) is not the pixel of any input vertex", z, pi, ri, v)
							}
							cr[i] = centre(v)
						}
						// (b) every output edge within half a pixel of the input boundary
						n := len(cr)
						for i := 0; i < n && n >= 2 && problem == ""; i++ {
							if n == 2 && i == 1 {
								break
							}
							if !covered(cr[i], cr[(i+1)%n], in, resz/2) {
								sig, problem = "edge-off-boundary:"+sigSuffix, fmt.Sprintf("id %d polygon %d ring %d: edge %v-%v (pixel indices) strays more than half a pixel from the input boundary", z, pi, ri, r[i], r[(i+1)%n])
							}
						}
						prs = append(prs, cr)
					}
					out = append(out, prs)
				}
				// (c) coverage at every quarter-pixel location farther than one pixel from the input boundary
				if problem == "" {
					step := resz / 4
					lo0, hi0 := ref.FloorDiv(bx0, step)*step-2*resz, bx1+2*resz
					lo1, hi1 := ref.FloorDiv(by0, step)*step-2*resz, by1+2*resz
				scan:
					for y := lo1; y <= hi1; y += step {
						for x := lo0; x <= hi0; x += step {
							q := ref.P{x, y}
							near := false
							for _, ring := range in {
								for i := range ring {
									if segHitsBox(ring[i], ring[(i+1)%len(ring)], x-resz, y-resz, x+resz, y+resz) {
										near = true
										break
									}
								}
								if near {
									break
								}
							}
							if near {
								continue
							}
							acc.Extra["locations-judged"]++
							inIn := insideInput(in, q)
							inOut := false
							for _, prs := range out {
								if len(prs) == 0 || len(prs[0]) < 3 {
									continue
								}
								if ref.PointInRing(prs[0], q) >= 0 {
									cov := true
									for _, h := range prs[1:] {
										if len(h) >= 3 && ref.PointInRing(h, q) == 1 {
											cov = false
										}
									}
									if cov {
										inOut = true
									}
								}
							}
							if inIn != inOut {
								sig, problem = "coverage:"+sigSuffix, fmt.Sprintf("id %d: location %v (1/8 lattice units) is inside the input = %v but inside the output = %v", z, q, inIn, inOut)
								break scan
							}
						}
					}
				}
				if problem != "" {
					probs = append(probs, Problem{Sig: sig, What: problem, IDs: ids, Cfg: cfg, Got: res})
				}
			}
		}
	}
	return probs
}

// neckFamily: two wings joined by a thin neck (pinches off at this level), optionally with a
// triangular hole in one wing; coordinates in quarter pixels relative to the window origin.
func neckFamily(thorough bool) [][][]ref.P {
	as, bs, ws, shifts, rots := []int64{22, 25}, []int64{30, 33}, []int64{1, 2}, []int64{0, 1}, []int{0, 3, 7}
	if thorough {
		as, bs, ws, shifts = []int64{22, 24, 25}, []int64{30, 32, 33}, []int64{1, 2, 3}, []int64{0, 1, 2, 3}
		rots = []int{0, 1, 2, 3, 4, 5, 6, 7, 8, 9, 10, 11}
	}
	var holePts [2][]ref.P
	for _, y := range []int64{4, 14, 18, 28} {
		for _, x := range []int64{4, 12, 18} {
			holePts[0] = append(holePts[0], ref.P{x, y})
		}
		for _, x := range []int64{36, 44, 52} {
			holePts[1] = append(holePts[1], ref.P{x, y})
		}
	}
	var out [][][]ref.P
	for _, a := range as {
		for _, b := range bs {
			for _, w := range ws {
				for _, sh := range shifts {
					c := 16 + sh
					shell := []ref.P{{0, 0}, {a, 0}, {a, c - w}, {b, c - w}, {b, 0}, {56, 0}, {56, 32}, {b, 32}, {b, c + w}, {a, c + w}, {a, 32}, {0, 32}}
					for _, rot := range rots {
						sr := append(append([]ref.P{}, shell[rot:]...), shell[:rot]...)
						out = append(out, [][]ref.P{sr})
						for wing := 0; wing < 2; wing++ {
							pts := holePts[wing]
							for i := range pts {
								for j := range pts {
									for k := range pts {
										if i == j || j == k || i == k || !(i < j && i < k) {
											continue // one rotation per triangle (smallest index first), both directions considered below
										}
										h := []ref.P{pts[i], pts[j], pts[k]}
										if ref.Area2(h) >= 0 {
											continue // holes clockwise
										}
										if !ref.HoleOK(sr, nil, h) {
											continue
										}
										out = append(out, [][]ref.P{sr, h})
									}
								}
							}
						}
					}
				}
			}
		}
	}
	return out
}

func scopesC04(thorough bool) []Scope {
	// the exact clipping arithmetic is int64 on 8x scaled units: real-grid blocks are left to C01/C02/C05/C18
	var scs []Scope
	for _, sc := range scopesValid(thorough) {
		if sc.GS.Kind == "real" {
			continue // pixel sizes of 1e8 fixed-point units overflow the int64 clipping arithmetic
		}
		scs = append(scs, sc)
	}
	return scs
}

func init() {
	register(&Prop{ID: "C04", PinnedFrom: []string{"C01"}, Scopes: scopesC04, Judge: judgeC04,
		Rule: "all valid lattice polygons of the scopes x id sets x keep modes; (a) output vertices are centres of pixels holding an input vertex, (b) every output edge lies in the union of input edges thickened by half a pixel (exact clipping against the convex hexagons), (c) at every quarter-pixel location of the bounding box + 2 pixels farther than one pixel (Chebyshev) from the input boundary: inside(input) == inside(union of returned polygons), exact winding numbers; non-trivial input = routing inserts a vertex or a centre is visited twice"})
}
