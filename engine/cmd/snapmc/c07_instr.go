//go:build instr

package main

import (
	"encoding/binary"
	"fmt"
	"os"
	"path/filepath"
	"reflect"

	"github.com/go-spatial/geom"
	"github.com/pdok/texel/zzverif/vsrt"
	"verif/engine/ev"
	"verif/engine/ref"
)

// ---- choice-point explorer for sequential code (map iteration orders) ----

var permCache = map[int][][]int{}

// alternatives: the permutations offered at a site with n keys; identity first.
// n <= 4: all n!; larger: identity, reverse, rotations, adjacent transpositions.
func alternatives(n int) [][]int {
	if a, ok := permCache[n]; ok {
		return a
	}
	id := make([]int, n)
	for i := range id {
		id[i] = i
	}
	var out [][]int
	if n <= 4 {
		var rec func(cur []int, used []bool)
		rec = func(cur []int, used []bool) {
			if len(cur) == n {
				out = append(out, append([]int{}, cur...))
				return
			}
			for i := 0; i < n; i++ {
				if !used[i] {
					used[i] = true
					rec(append(cur, i), used)
					used[i] = false
				}
			}
		}
		rec(nil, make([]bool, n))
	} else {
		out = append(out, id)
		rev := make([]int, n)
		for i := range rev {
			rev[i] = n - 1 - i
		}
		out = append(out, rev)
		for r := 1; r < n; r++ {
			p := make([]int, n)
			for i := range p {
				p[i] = (i + r) % n
			}
			out = append(out, p)
		}
		for i := 0; i+1 < n; i++ {
			p := append([]int{}, id...)
			p[i], p[i+1] = p[i+1], p[i]
			out = append(out, p)
		}
	}
	permCache[n] = out
	return out
}

type chooser struct {
	prefix  []int
	choices []int
	nalts   []int
	sites   []string
	descend bool // always take the reverse permutation (second baseline)
	diverge string
}

var ch *chooser

func orderHook(site string, n int) []int {
	alts := alternatives(n)
	i := len(ch.choices)
	c := 0
	if ch.descend {
		// the reverse permutation: last in lexicographic order for n<=4, index 1 otherwise
		c = len(alts) - 1
		if n > 4 {
			c = 1
		}
	} else if i < len(ch.prefix) {
		c = ch.prefix[i]
		if c >= len(alts) {
			ch.diverge = fmt.Sprintf("replay divergence at choice %d (site %s): alternative %d of %d", i, site, c, len(alts))
			c = 0
		}
	}
	ch.choices = append(ch.choices, c)
	ch.nalts = append(ch.nalts, len(alts))
	ch.sites = append(ch.sites, site)
	return alts[c]
}

type orderCase struct {
	Choices []int    `json:"choices"`
	Sites   []string `json:"sites"`
}

// exploreOrders runs one call under every iteration order with at most `bound`
// deviations and returns the first execution whose result differs from base.
func exploreOrders(call func() (map[int][]geom.Polygon, any), bound int, acc *Acc) (base map[int][]geom.Polygon, diff *orderCase, other map[int][]geom.Polygon, otherPan any, basePan any) {
	runWith := func(prefix []int, descend bool) (map[int][]geom.Polygon, any, *chooser) {
		ch = &chooser{prefix: prefix, descend: descend}
		res, pan := call()
		if ch.diverge != "" {
			ev.HarnessError("%s", ch.diverge)
		}
		acc.Calls++
		acc.Extra["executions"]++
		return res, pan, ch
	}
	base, basePan, c0 := runWith(nil, false)
	acc.Extra["choice-points(default run)"] += int64(len(c0.choices))
	same := func(res map[int][]geom.Polygon, pan any) bool {
		return (pan == nil) == (basePan == nil) && reflect.DeepEqual(res, base)
	}
	// second baseline: everything descending
	if res, pan, c := runWith(nil, true); !same(res, pan) {
		return base, &orderCase{Choices: c.choices, Sites: c.sites}, res, pan, basePan
	}
	var rec func(prefix []int, devs int) *orderCase
	rec = func(prefix []int, devs int) *orderCase {
		res, pan, c := runWith(prefix, false)
		if !same(res, pan) {
			other, otherPan = res, pan
			return &orderCase{Choices: c.choices, Sites: c.sites}
		}
		if devs == bound {
			return nil
		}
		choices, nalts := c.choices, c.nalts
		for i := len(prefix); i < len(choices); i++ {
			for alt := 1; alt < nalts[i]; alt++ {
				p := append(append([]int{}, choices[:i]...), alt)
				if d := rec(p, devs+1); d != nil {
					return d
				}
			}
		}
		return nil
	}
	// the default run was already done; expand its alternatives
	for i := 0; i < len(c0.choices) && bound > 0; i++ {
		for alt := 1; alt < c0.nalts[i]; alt++ {
			p := append(append([]int{}, c0.choices[:i]...), alt)
			if d := rec(p, 1); d != nil {
				return base, d, other, otherPan, basePan
			}
		}
	}
	return base, nil, nil, nil, basePan
}

var orderBound = 1

func judgeC07orders(sc *Scope, rings [][]ref.P, acc *Acc) []Problem {
	var probs []Problem
	poly := toPolygon(sc.G, rings)
	units := toUnits(sc.G, rings)
	if nontrivialInput(sc, units, sc.G.Deepest) {
		acc.Nontrivial++
	}
	vsrt.OrderHook = orderHook
	defer func() { vsrt.OrderHook = nil }()
	for _, ids := range sc.IDSets {
		for _, cfg := range cfgsOr(sc.Cfgs) {
			base, diff, other, otherPan, basePan := exploreOrders(func() (map[int][]geom.Polygon, any) { return run(sc.G, poly, ids, cfg) }, orderBound, acc)
			acc.outcome(base)
			recordDigest(acc, hashResult(base, basePan))
			if diff != nil {
				probs = append(probs, Problem{Sig: "map-order-dependent:" + lastDeviatingSite(diff), What: fmt.Sprintf("result depends on map iteration order: choices %v at sites %v give a different result (panic=%v) than ascending order", diff.Choices, diff.Sites, otherPan), IDs: ids, Cfg: cfg,
					Got: map[string]any{"ascending": base, "other": other}, Detail: diff})
			}
		}
	}
	return probs
}

func lastDeviatingSite(d *orderCase) string {
	s := "?"
	for i, c := range d.Choices {
		if c != 0 {
			s = d.Sites[i]
		}
	}
	return s
}

// finishC07: absorb the plain stage, compare outcome digests (conformance of the
// instrumentation with the un-instrumented code), write the evidence.
func finishC07(r *ev.Run, c *finalCov) {
	plain := r.AbsorbStage(os.Getenv("VERIF_STAGE_IN"))
	work := os.Getenv("VERIF_WORK")
	var validated, mismatched int64
	for _, sc := range scopesC07orders(r.Thorough()) {
		for shard := 0; shard < c.Shards; shard++ {
			a, errA := os.ReadFile(filepath.Join(work, fmt.Sprintf("digest-C07-%s-%d.bin", sc.Name, shard)))
			b, errB := os.ReadFile(filepath.Join(work, fmt.Sprintf("digest-C07plain-%s-%d.bin", sc.Name, shard)))
			if errA != nil || errB != nil {
				if !c.Exhaustive || plain["exhaustive"] != true {
					continue // a deadline cut one of the stages short
				}
				if errA != nil && errB != nil {
					continue // shard without inputs in this scope
				}
				ev.HarnessError("digest files missing for scope %s shard %d: %v %v", sc.Name, shard, errA, errB)
			}
			n := len(a)
			if len(b) < n {
				n = len(b)
			}
			if len(a) != len(b) && c.Exhaustive && plain["exhaustive"] == true {
				ev.HarnessError("instrumented and plain stage enumerated different numbers of inputs in scope %s shard %d (%d vs %d)", sc.Name, shard, len(a)/8, len(b)/8)
			}
			for i := 0; i+8 <= n; i += 8 {
				if binary.LittleEndian.Uint64(a[i:]) == binary.LittleEndian.Uint64(b[i:]) {
					validated++
				} else {
					mismatched++
				}
			}
		}
	}
	if mismatched > 0 && r.Violations() == 0 {
		// every explored order agreed, yet the free-running un-instrumented code returned something else:
		// the result depends on an order (or other nondeterminism) beyond the explored deviations
		r.Violation("plain-build-outcome-differs-from-all-explored-orders", fmt.Sprintf("%d outcomes of the un-instrumented build differ from the outcome of the instrumented build under every explored iteration order", mismatched), map[string]any{"mismatched": mismatched, "validated": validated})
	}
	m := c.Map("(1) order exploration on the instrumented build (every `range` over a map and maps.Keys/Values in snap, pointindex, mapslicehelp, geomhelp is a choice point): per input the all-ascending run, the all-descending run and every execution with <= " + fmt.Sprint(orderBound) + " deviation(s) (a deviation = any non-default permutation at one dynamic occurrence; all n! permutations for n <= 4 keys) must return deep-equal results; (2) plain build: repetition, every subset of rings reversed, reverse flag; non-trivial input = routing inserts a vertex or a centre is visited twice")
	m["traces_validated_against_impl"] = validated
	m["plain_stage"] = plain
	m["states"] = c.States + toInt(plain["states"])
	m["transitions"] = c.Transitions + c.Calls + toInt(plain["transitions"])
	m["evaluations"] = c.Calls + toInt(plain["evaluations"])
	m["deviation_bound_completed"] = orderBound
	m["explanation"] = "states = DFS nodes of the input search plus, per input, the choice sequences explored; transitions = executions of the real (instrumented) snap.SnapPolygon; traces_validated_against_impl = outcomes of the instrumented build under ascending order that were re-observed on the un-instrumented build in a separate process"
	if plain["exhaustive"] != true {
		m["exhaustive"] = false
	}
	r.Finish(m)
}

func toInt(v any) int64 {
	switch x := v.(type) {
	case float64:
		return int64(x)
	case int64:
		return x
	}
	return 0
}

func init() {
	if os.Getenv("VERIF_TIER") == "thorough" {
		orderBound = 2
	}
	register(&Prop{ID: "C07", Scopes: scopesC07orders, Judge: judgeC07orders, Finish: finishC07,
		Rule: "order exploration"})
}
