package main

import (
	"fmt"
	"reflect"
	"strings"

	"github.com/go-spatial/geom"
	"verif/engine/lat"
	"verif/engine/ref"
)

func judgeC08(sc *Scope, rings [][]ref.P, acc *Acc) []Problem {
	var probs []Problem
	poly := toPolygon(sc.G, rings)
	units := toUnits(sc.G, rings)
	if nontrivialInput(sc, units, sc.G.Deepest) {
		acc.Nontrivial++
	}
	for _, cfg := range sc.Cfgs {
		alone := map[int][]geom.Polygon{}
		present := map[int]bool{}
		ok := true
		for _, ids := range sc.IDSets {
			if len(ids) != 1 {
				continue
			}
			res, pan := run(sc.G, poly, ids, cfg)
			acc.Calls++
			if pan != nil {
				acc.Extra["panicked(C06)"]++
				ok = false
				break
			}
			if !inIDs(res, ids) {
				probs = append(probs, Problem{Sig: "foreign-key", What: fmt.Sprintf("result has keys outside the requested ids %v", ids), IDs: ids, Cfg: cfg, Got: res})
			}
			alone[ids[0]], present[ids[0]] = res[ids[0]], false
			if _, p := res[ids[0]]; p {
				present[ids[0]] = true
			}
		}
		if !ok {
			continue
		}
		for _, ids := range sc.IDSets {
			if len(ids) == 1 {
				continue
			}
			res, pan := run(sc.G, poly, ids, cfg)
			acc.Calls++
			if pan != nil {
				// every id of the set returns normally when requested alone: the panic itself depends on the other ids
				acc.Extra["panicked(C06)"]++
				probs = append(probs, Problem{Sig: "panics-only-with-other-ids", What: fmt.Sprintf("ids %v requested together panic (%v); each of them requested alone returns normally", ids, pan), IDs: ids, Cfg: cfg})
				continue
			}
			acc.outcome(res)
			if !inIDs(res, ids) {
				probs = append(probs, Problem{Sig: "foreign-key", What: fmt.Sprintf("result has keys outside the requested ids %v", ids), IDs: ids, Cfg: cfg, Got: res})
			}
			for _, z := range ids {
				got, p := res[z]
				if p != present[z] || !reflect.DeepEqual(got, alone[z]) {
					probs = append(probs, Problem{Sig: "depends-on-other-ids", What: fmt.Sprintf("id %d requested with %v gives %v (present=%v), requested alone gives %v (present=%v)", z, ids, got, p, alone[z], present[z]), IDs: ids, Cfg: cfg, Got: res})
					break
				}
			}
		}
	}
	return probs
}

func scopesC08(thorough bool) []Scope {
	k := func(q, t int) int {
		if thorough {
			return t
		}
		return q
	}
	all4 := subsetsOf([]int{0, 1, 2, 3})
	scs := []Scope{
		// 2x2 window of id-1 pixels on a 4-level grid: 1x1 at id 0, 4x4 at id 2, 8x8 at id 3
		{Name: "L-multi4", GS: synthGS(3, 2, [2]int64{60, 60}), Spec: lat.Spec{Points: scale(lat.Window(2, 2, 2), 4), MaxK: k(4, 5), Valid: true}, IDSets: all4, Cfgs: allCfgs},
		// straddling the root centre at every level
		{Name: "L-multi4-centre", GS: synthGS(3, 2, [2]int64{62, 62}), Spec: lat.Spec{Points: scale(lat.Window(2, 2, 2), 2), MaxK: k(4, 5), Valid: true}, IDSets: all4, Cfgs: keepCfgs},
		{Name: "L-half-2-deep", GS: synthGS(3, 2, [2]int64{63, 63}), Spec: lat.Spec{Points: lat.Window(2, 2, 2), MaxK: k(4, 5), Valid: true}, IDSets: all4, Cfgs: keepCfgs},
		// shell + one hole on the coarse lattice: the shell collapses at id 0 (and often 1) while the hole survives at id 3
		{Name: "L-multi4-holes", GS: synthGS(3, 2, [2]int64{60, 60}), Spec: lat.Spec{Points: scale(lat.Window(2, 2, 2), 4), MaxK: 4, Valid: true, MaxHoles: 1, HoleMaxK: 3},
			IDSets: [][]int{{0}, {1}, {2}, {3}, {0, 3}, {1, 3}, {2, 3}, {1, 2}, {0, 1, 2, 3}}, Cfgs: keepCfgs},
		{Name: "C-walk-deep", GS: synthGS(2, 2, [2]int64{31, 31}), Spec: lat.Spec{Points: lat.Centres(2, 2), MinK: 1, MaxK: k(5, 7), Repeats: true}, IDSets: subsetsOf([]int{0, 1, 2}), Cfgs: keepCfgs},
	}
	// ids far apart on a six-level grid: a 2x2 window of id-2 pixels (1/4 of an id-0 pixel wide, 8x8 pixels of id 5)
	scs = append(scs, Scope{Name: "L-multi6-spaced", GS: synthGS(5, 2, [2]int64{240, 240}), Spec: lat.Spec{Points: scale(lat.Window(2, 2, 2), 8), MaxK: k(3, 4), Valid: true},
		IDSets: [][]int{{0}, {1}, {2}, {3}, {4}, {5}, {0, 5}, {1, 4}, {0, 2, 5}, {0, 3}, {2, 5}, {5, 1}, {1, 3, 5}, {0, 1, 2, 3, 4, 5}}, Cfgs: keepCfgs})
	// a hair off a border: vertices 1/512 of a deepest pixel below / on / above a pixel border of the COARSEST id (ids 0..3:
	// 1/4096 of an id-0 pixel) and half an id-0 pixel away: whatever tolerance decides the pixel of a vertex must not be
	// derived from the deepest requested id
	{
		const u, b = int64(1), int64(4096) // lattice unit = 1/512 deepest pixel; an id-0 pixel = 8 deepest pixels = 4096 units
		var pts []ref.P
		for _, y := range []int64{b - u, b, b + u, b - 2048, b + 2048} {
			for _, x := range []int64{b - u, b, b + u, b - 2048, b + 2048} {
				pts = append(pts, ref.P{x, y})
			}
		}
		scs = append(scs, Scope{Name: "L-hair-multi4", GS: synthGS(3, 512, [2]int64{56, 56}), Spec: lat.Spec{Points: pts, MaxK: k(3, 4), Valid: true}, IDSets: all4, Cfgs: keepCfgs})
	}
	// the id LIST as written: descending, largest id not last, duplicates (the result is keyed by id whatever the order)
	scs = append(scs, Scope{Name: "L-multi-id-lists", GS: synthGS(2, 2, [2]int64{28, 28}), Spec: lat.Spec{Points: scale(lat.Window(2, 2, 2), 4), MaxK: k(4, 5), Valid: true},
		IDSets: [][]int{{0}, {1}, {2}, {1, 0}, {2, 0}, {2, 1}, {2, 1, 0}, {1, 2, 0}, {0, 2, 1}, {2, 0, 1}, {0, 0, 1}, {1, 1, 0}, {2, 2}, {0, 2, 2}, {2, 2, 0, 0}}, Cfgs: keepCfgs})
	// the families of larger polygons that live on a three-level grid (thin frames, comb-sided holes): every subset of the ids
	for _, f := range cellScopes(thorough) {
		if strings.HasPrefix(f.Name, "F-cells-multi") || strings.HasPrefix(f.Name, "F-comb-multi") {
			f.IDSets = subsetsOf([]int{0, 1, 2})
			scs = append(scs, f)
		}
	}
	return scs
}

func init() {
	register(&Prop{ID: "C08", Scopes: scopesC08, Judge: judgeC08,
		Rule: "lattice polygons on 3- and 4-level synthetic (round) grids x every non-empty subset of the ids x configs; oracle: keys are requested ids only and the geometry of an id requested inside any subset deep-equals the geometry of that id requested alone (presence included); non-trivial input = routing inserts a vertex or a centre is visited twice at the deepest id"})
}
