package main

import (
	"fmt"
	"os"

	"verif/engine/lat"
	"verif/engine/ref"
)

// Families: stated finite families of larger valid polygons built around the shortcuts
// visible in the code (ring splitting at pinches, shell/hole cancellation, hole matching,
// direction normalisation) that the small free lattice searches cannot reach: each
// member needs 8-20 vertices.  Coordinates are quarter pixels relative to the window origin.

func rotations(r []ref.P, which []int) [][]ref.P {
	var out [][]ref.P
	for _, k := range which {
		k %= len(r)
		out = append(out, append(append([]ref.P{}, r[k:]...), r[:k]...))
	}
	return out
}

func allRot(n int) []int {
	o := make([]int, n)
	for i := range o {
		o[i] = i
	}
	return o
}

func rect(x0, y0, x1, y1 int64, cw bool) []ref.P {
	if cw {
		return []ref.P{{x0, y0}, {x0, y1}, {x1, y1}, {x1, y0}}
	}
	return []ref.P{{x0, y0}, {x1, y0}, {x1, y1}, {x0, y1}}
}

// moatFamily: a shell with a square "lake" hole and a thin C-shaped "ditch" hole wrapped around
// the lake (both banks of the ditch collapse onto the lake's snapped outline: one shell piece and
// two hole pieces become equal rings that must cancel to exactly one hole).
func moatFamily(thorough bool) [][][]ref.P {
	var out [][][]ref.P
	shell := rect(0, 0, 56, 56, false)
	gaps := []int64{20, 26, 31}
	rots := []int{0, 5, 6, 11}
	lakeRots := []int{0, 1, 2, 3}
	if thorough {
		gaps = []int64{14, 20, 24, 26, 28, 31, 36}
		rots = allRot(12)
	}
	for _, inset := range []int64{0, 1} { // lake corner inside / on the ditch's pixel row
		lake := rect(14+inset, 14+inset, 41-inset, 41-inset, true)
		for _, g := range gaps {
			// ditch: outer bank at 12.5..43.5, inner bank 13..43 (quarter pixels: thinner than a pixel), gap of 2 quarter pixels at x=g on the top side
			// lake edge, inner and outer bank share one pixel column/row on every side (pixels [12,16) and [40,44))
			o0, o1, i0, i1 := int64(12), int64(43), int64(13), int64(42)
			ditch := []ref.P{{g + 2, i1}, {g + 2, o1}, {o1, o1}, {o1, o0}, {o0, o0}, {o0, o1}, {g, o1}, {g, i1}, {i0, i1}, {i0, i0}, {i1, i0}, {i1, i1}}
			if ref.Area2(ditch) > 0 {
				for l, r := 0, len(ditch)-1; l < r; l, r = l+1, r-1 {
					ditch[l], ditch[r] = ditch[r], ditch[l]
				}
			}
			for _, d := range rotations(ditch, rots) {
				for _, lk := range rotations(lake, lakeRots) {
					if ref.HoleOK(shell, nil, lk) && ref.HoleOK(shell, [][]ref.P{lk}, d) {
						out = append(out, [][]ref.P{shell, lk, d}, [][]ref.P{shell, d, lk})
					}
				}
				if ref.HoleOK(shell, nil, d) {
					out = append(out, [][]ref.P{shell, d})
				}
			}
		}
	}
	return out
}

// cFamily: a C-shaped ring whose sub-pixel mouth closes when snapped (the ring splits into pieces
// of opposite orientation), with an extra collinear vertex on its horizontal bottom edge; every
// start vertex; as a shell and as a hole inside a frame.
func cFamily(thorough bool) [][][]ref.P {
	var out [][][]ref.P
	mouths := []int64{1, 2}
	if thorough {
		mouths = []int64{1, 2, 3, 5}
	}
	for _, m := range mouths {
		for _, wall := range []int64{6, 9} {
			// outer 8..48 x 8..40, wall thickness `wall`, mouth of m quarter pixels on the right side around y=24
			x0, y0, x1, y1 := int64(8), int64(8), int64(48), int64(40)
			c := []ref.P{{x0, y0}, {28, y0}, {x1, y0}, {x1, 24}, {x1 - wall, 24}, {x1 - wall, y0 + wall}, {x0 + wall, y0 + wall}, {x0 + wall, y1 - wall}, {x1 - wall, y1 - wall}, {x1 - wall, 24 + m}, {x1, 24 + m}, {x1, y1}, {x0, y1}}
			if !ref.Simple(c) || ref.Area2(c) <= 0 {
				continue
			}
			for _, r := range rotations(c, allRot(len(c))) {
				out = append(out, [][]ref.P{r})
				// as a hole (clockwise) inside a frame
				h := make([]ref.P, len(r))
				for i := range r {
					h[len(r)-1-i] = r[i]
				}
				frame := rect(0, 0, 56, 48, false)
				if ref.HoleOK(frame, nil, h) {
					out = append(out, [][]ref.P{frame, h})
				}
			}
		}
	}
	return out
}

// snakeFamily: a block whose right part is folded into thin horizontal slits (each thinner than a
// pixel): per pixel row 0, 2 or 3 passes between x=2px and x=15px; 2 passes = a slit that collapses
// to a back-trace, 3 passes = a Z-shaped fold that collapses to A B A B.  Several folds in one ring
// give kmpDeduplicate several sequences to remove.  Eighth pixels; every start vertex.
func snakeFamily(thorough bool) [][][]ref.P {
	rows := 4
	if thorough {
		rows = 5
	}
	var out [][][]ref.P
	var rec func(r int, ms []int)
	rec = func(r int, ms []int) {
		if r == rows {
			total := 0
			for _, m := range ms {
				total += m
			}
			if total == 0 || total%2 != 0 {
				return
			}
			xL, xR, top := int64(16), int64(120), int64(8*rows+8)
			ring := []ref.P{{0, 0}, {xR, 0}}
			right := true
			for row, m := range ms {
				for k := 0; k < m; k++ {
					y := int64(8*row + 2 + k)
					if right {
						ring = append(ring, ref.P{xR, y}, ref.P{xL, y})
					} else {
						ring = append(ring, ref.P{xL, y}, ref.P{xR, y})
					}
					right = !right
				}
			}
			ring = append(ring, ref.P{xR, top}, ref.P{0, top})
			if !ref.Simple(ring) || ref.Area2(ring) <= 0 {
				return
			}
			rots := []int{0, 1, 2, len(ring) / 2, len(ring) - 2, len(ring) - 1}
			if thorough {
				rots = allRot(len(ring))
			}
			for _, rr := range rotations(ring, rots) {
				out = append(out, [][]ref.P{rr})
			}
			return
		}
		for _, m := range []int{0, 2, 3} {
			rec(r+1, append(ms, m))
		}
	}
	rec(0, nil)
	return out
}

// diamondFamily: two diamond-shaped wings joined by a thin neck (each wing's extreme points are
// single vertices), optionally with a 3x3 pixel square hole in the upper or lower half of a wing;
// every start vertex.  Quarter pixels on a 32x32 pixel grid.
func diamondFamily(thorough bool) [][][]ref.P {
	var out [][][]ref.P
	ws := []int64{1, 2}
	if thorough {
		ws = []int64{1, 2, 3, 5}
	}
	for _, w := range ws {
		c := int64(30) // y of the neck axis (7.5 px: the neck lies inside one pixel row)
		shell := []ref.P{{28, 2}, {56, c - w}, {60, c - w}, {88, 2}, {116, c}, {88, 58}, {60, c + w}, {56, c + w}, {28, 58}, {0, c}}
		if !ref.Simple(shell) || ref.Area2(shell) <= 0 {
			continue
		}
		var holes [][]ref.P
		for _, cx := range []int64{28, 88} {
			for _, cy := range []int64{c + 12, c - 12} {
				holes = append(holes, rect(cx-6, cy-6, cx+6, cy+6, true))
			}
		}
		for _, sr := range rotations(shell, allRot(len(shell))) {
			out = append(out, [][]ref.P{sr})
			for _, h := range holes {
				for _, hr := range rotations(h, []int{0, 2}) {
					if ref.HoleOK(sr, nil, hr) {
						out = append(out, [][]ref.P{sr, hr})
					}
				}
			}
			if thorough {
				for i := range holes {
					for j := i + 1; j < len(holes); j++ {
						if ref.HoleOK(sr, nil, holes[i]) && ref.HoleOK(sr, [][]ref.P{holes[i]}, holes[j]) {
							out = append(out, [][]ref.P{sr, holes[i], holes[j]})
						}
					}
				}
			}
		}
	}
	return out
}

// towerFamily: a rectangle with a narrow tower on top (a non-convex shell with vertical edges that
// end above the interior) and a rectangular hole whose sides line up - after snapping - with the
// tower walls' pixel columns, or not; every start vertex of shell and hole.
func towerFamily(thorough bool) [][][]ref.P {
	var out [][][]ref.P
	shell := []ref.P{{0, 0}, {40, 0}, {40, 28}, {24, 28}, {24, 36}, {16, 36}, {16, 28}, {0, 28}}
	x0s, x1s := []int64{13, 17}, []int64{25, 29}
	if thorough {
		x0s, x1s = []int64{9, 13, 17, 21}, []int64{21, 25, 29, 33}
	}
	for _, x0 := range x0s {
		for _, x1 := range x1s {
			for _, y0 := range []int64{6, 12} {
				for _, y1 := range []int64{18, 22} {
					if x0 >= x1 {
						continue
					}
					h := rect(x0, y0, x1, y1, true)
					for _, sr := range rotations(shell, allRot(len(shell))) {
						for _, hr := range rotations(h, allRot(4)) {
							if ref.HoleOK(sr, nil, hr) {
								out = append(out, [][]ref.P{sr, hr})
							}
						}
					}
				}
			}
		}
	}
	return out
}

// touchFamily: a large and a small diamond whose tips lie in the same pixel (the snapped shell splits
// into two shells touching at one pixel centre) and a triangular hole in the large part whose first
// vertex lies in that same pixel; every start vertex of the shell, every start vertex of the hole.
func touchFamily(thorough bool) [][][]ref.P {
	var out [][][]ref.P
	ws := []int64{1}
	if thorough {
		ws = []int64{1, 2}
	}
	for _, w := range ws {
		c := int64(30)
		shell := []ref.P{{28, 2}, {57, c - w}, {59, c - w}, {72, c - 12}, {86, c}, {72, c + 12}, {59, c + w}, {57, c + w}, {28, 58}, {0, c}}
		if !ref.Simple(shell) || ref.Area2(shell) <= 0 {
			continue
		}
		holes := [][]ref.P{
			{{56, c}, {32, c + 14}, {32, c - 14}}, // large part, a vertex in the shared pixel; wide enough to have interior > 1 px from its boundary
			{{52, c}, {32, c + 14}, {32, c - 14}}, // large part, not touching
			{{60, c}, {70, c + 5}, {70, c - 5}},   // small part, a vertex in the shared pixel
		}
		for _, sr := range rotations(shell, allRot(len(shell))) {
			for _, h := range holes {
				if ref.Area2(h) > 0 {
					h = []ref.P{h[0], h[2], h[1]}
				}
				for _, hr := range rotations(h, allRot(3)) {
					if ref.HoleOK(sr, nil, hr) {
						out = append(out, [][]ref.P{sr, hr})
					}
				}
			}
		}
	}
	return out
}

// kissFamily: two holes that meet in one pixel without touching: the apex of a narrow triangular hole pokes into the
// notch of a dart-shaped hole right above it (apex and notch in the same pixel, a sub-pixel apart).  Snapped, the two
// holes share a centre; if either loses that vertex its neighbours are joined by an edge through the other hole.
// Quarter pixels; every start vertex of both holes, both orders of the holes.
func kissFamily(thorough bool) [][][]ref.P {
	var out [][][]ref.P
	shell := rect(0, 0, 60, 52, false)
	for _, an := range [][2]int64{{24, 26}, {24, 27}, {25, 27}, {25, 26}, {26, 27}} {
		for _, ax := range []int64{29, 30, 31} {
			for _, nx := range []int64{29, 30, 31} {
				if !thorough && ax != nx && ax != 30 {
					continue
				}
				tri := []ref.P{{26, 6}, {30, 2}, {34, 6}, {ax, an[0]}}
				dart := []ref.P{{14, 14}, {nx, an[1]}, {46, 14}, {30, 46}}
				for _, r := range [][]ref.P{tri, dart} {
					if ref.Area2(r) > 0 {
						for l, rr := 0, len(r)-1; l < rr; l, rr = l+1, rr-1 {
							r[l], r[rr] = r[rr], r[l]
						}
					}
				}
				if !ref.HoleOK(shell, nil, tri) || !ref.HoleOK(shell, [][]ref.P{tri}, dart) {
					continue
				}
				for _, t := range rotations(tri, allRot(len(tri))) {
					for _, d := range rotations(dart, allRot(len(dart))) {
						out = append(out, [][]ref.P{shell, t, d}, [][]ref.P{shell, d, t})
					}
				}
			}
		}
	}
	return out
}

// teethFamily: a narrow body whose east side is a stack of t thin teeth between two pixels A (west) and B (east, 16 pixels
// away), an arm lying on top of the teeth, and 0-2 thin cracks cutting in from the west between arm and teeth: the
// boundary runs A->B and B->A many times (zig-zag), leaves through other pixels (around the arm) and comes back to run
// A->B again along each crack.  These are the repetition patterns kmpDeduplicate's case analysis has to tell apart,
// produced by valid polygons.  1/100 pixel units; every start vertex; cracks in the pixel row of the teeth or one above.
func teethFamily(thorough bool) [][][]ref.P {
	var out [][][]ref.P
	for t := 1; t <= 4; t++ {
		for cracks := 0; cracks <= 2; cracks++ {
			for _, rowUp := range []int64{0, 100} {
				if cracks == 0 && rowUp > 0 {
					continue
				}
				ring := []ref.P{{240, 240}, {460, 240}}
				for i := 0; i < 2*t; i++ {
					x := int64(480)
					if i%2 == 1 {
						x = 2020
					}
					ring = append(ring, ref.P{x, 1208 + 8*int64(i)})
				}
				top := 1340 + rowUp
				ring = append(ring, ref.P{2040, top}, ref.P{440, top})
				switch cracks {
				case 1:
					ring = append(ring, ref.P{440, 1290 + rowUp}, ref.P{2010, 1275 + rowUp})
				case 2:
					ring = append(ring, ref.P{440, 1325 + rowUp}, ref.P{2010, 1318 + rowUp}, ref.P{440, 1308 + rowUp}, ref.P{2010, 1275 + rowUp})
				}
				ring = append(ring, ref.P{420, 1262}, ref.P{240, 1262})
				if !ref.Simple(ring) || ref.Area2(ring) <= 0 {
					continue
				}
				rots := allRot(len(ring))
				if !thorough {
					rots = []int{0, 1, 2, 3, len(ring) / 2, len(ring) - 3, len(ring) - 2, len(ring) - 1}
				}
				for _, r := range rotations(ring, rots) {
					out = append(out, [][]ref.P{r})
				}
			}
		}
	}
	return out
}

// moat3Family: a lake with TWO thin C-shaped ditches wrapped around it, all three in the same ring of pixels: the lake's
// outline, both banks of both ditches and the islands between them snap to one and the same ring, so one group of equal
// rings holds several outers and several inners of which all but one hole must cancel.  Eighth pixels.
func moat3Family(thorough bool) [][][]ref.P {
	var out [][][]ref.P
	shell := rect(0, 0, 112, 112, false)
	ditch := func(o0, o1, g int64) []ref.P {
		i0, i1 := o0+1, o1-1
		d := []ref.P{{g + 3, i1}, {g + 3, o1}, {o1, o1}, {o1, o0}, {o0, o0}, {o0, o1}, {g, o1}, {g, i1}, {i0, i1}, {i0, i0}, {i1, i0}, {i1, i1}}
		if ref.Area2(d) > 0 {
			for l, r := 0, len(d)-1; l < r; l, r = l+1, r-1 {
				d[l], d[r] = d[r], d[l]
			}
		}
		return d
	}
	lake := rect(30, 30, 82, 82, true)
	gaps := [][2]int64{{40, 60}, {60, 40}}
	rots := []int{0, 5}
	if thorough {
		gaps = append(gaps, [2]int64{40, 41}, [2]int64{33, 70})
		rots = []int{0, 3, 5, 6, 11}
	}
	for _, g := range gaps {
		a, b := ditch(24, 87, g[0]), ditch(27, 84, g[1])
		for _, ra := range rotations(a, rots) {
			for _, rb := range rotations(b, rots) {
				if !ref.HoleOK(shell, nil, lake) || !ref.HoleOK(shell, [][]ref.P{lake}, rb) || !ref.HoleOK(shell, [][]ref.P{lake, rb}, ra) {
					continue
				}
				out = append(out, [][]ref.P{shell, lake, ra, rb}, [][]ref.P{shell, ra, rb, lake}, [][]ref.P{shell, rb, lake, ra}, [][]ref.P{shell, ra, rb}, [][]ref.P{shell, rb, ra})
			}
		}
	}
	return out
}

func familyScopes(thorough bool) []Scope {
	return append(handMadeFamilyScopes(thorough), cellScopes(thorough)...)
}

func handMadeFamilyScopes(thorough bool) []Scope {
	one := [][]int{{0}}
	return []Scope{
		{Name: "F-neck", GS: synthGS(0, 4, [2]int64{1, 4}), Spec: lat.Spec{Explicit: neckFamily(thorough), Valid: true}, IDSets: one, Cfgs: keepCfgs},
		{Name: "F-moat", GS: synthGS(0, 4, [2]int64{1, 1}), Spec: lat.Spec{Explicit: moatFamily(thorough), Valid: true}, IDSets: one, Cfgs: keepCfgs},
		{Name: "F-c", GS: synthGS(0, 4, [2]int64{1, 2}), Spec: lat.Spec{Explicit: cFamily(thorough), Valid: true}, IDSets: one, Cfgs: keepCfgs},
		{Name: "F-diamond", GS: GridSpec{Kind: "synth", Deepest: 1, Px: 1, Sub: 4, OffPx: [2]int64{1, 9}, TileWidth: 1}, Spec: lat.Spec{Explicit: diamondFamily(thorough), Valid: true}, IDSets: [][]int{{1}}, Cfgs: keepCfgs},
		{Name: "F-tower", GS: synthGS(0, 4, [2]int64{2, 3}), Spec: lat.Spec{Explicit: towerFamily(thorough), Valid: true}, IDSets: one, Cfgs: keepCfgs},
		{Name: "F-touch", GS: GridSpec{Kind: "synth", Deepest: 1, Px: 1, Sub: 4, OffPx: [2]int64{1, 9}, TileWidth: 1}, Spec: lat.Spec{Explicit: touchFamily(thorough), Valid: true}, IDSets: [][]int{{1}}, Cfgs: keepCfgs},
		{Name: "F-moat2", GS: GridSpec{Kind: "synth", Deepest: 1, Px: 1, Sub: 4, OffPx: [2]int64{1, 1}, TileWidth: 1}, Spec: lat.Spec{Explicit: moat2Family(thorough), Valid: true}, IDSets: [][]int{{1}}, Cfgs: keepCfgs},
		{Name: "F-nested", GS: GridSpec{Kind: "synth", Deepest: 1, Px: 1, Sub: 4, OffPx: [2]int64{2, 3}, TileWidth: 1}, Spec: lat.Spec{Explicit: nestedFamily(thorough), Valid: true}, IDSets: [][]int{{1}}, Cfgs: keepCfgs},
		{Name: "F-moat3", GS: synthGS(0, 8, [2]int64{1, 1}), Spec: lat.Spec{Explicit: moat3Family(thorough), Valid: true}, IDSets: one, Cfgs: keepCfgs},
		{Name: "F-kiss", GS: synthGS(0, 4, [2]int64{0, 1}), Spec: lat.Spec{Explicit: kissFamily(thorough), Valid: true}, IDSets: one, Cfgs: keepCfgs},
		{Name: "F-teeth", GS: GridSpec{Kind: "synth", Deepest: 1, Px: 1, Sub: 100, OffPx: [2]int64{1, 1}, TileWidth: 1}, Spec: lat.Spec{Explicit: teethFamily(thorough), Valid: true}, IDSets: [][]int{{1}}, Cfgs: keepCfgs},
		{Name: "F-snake", GS: synthGS(0, 8, [2]int64{0, 2}), Spec: lat.Spec{Explicit: snakeFamily(thorough), Valid: true}, IDSets: one, Cfgs: keepCfgs},
	}
}

// kmpFamily: walks over distinct pixel centres in convex position (no centre lies in a pixel
// crossed by the edge between two others, so the snapped ring is the walk itself) whose pattern of
// repeated visits is: q fresh pixels, then every stutter-free word over {A, B, X} of length <= n
// starting with "A B", then t fresh pixels.  These are the shapes kmpDeduplicate reasons about
// (zig-zags, back-traces, a zig-zag followed by a repeat, a spike then a triangle ...).
// Coordinates in half pixels on a 256x256 pixel grid (deepest id 4).
func kmpFamily(thorough bool) [][][]ref.P {
	maxQ, maxBody, maxT := 6, 9, 1
	if thorough {
		maxQ, maxBody, maxT = 9, 11, 2
	}
	centre := func(i int) ref.P { // pixel (20+i*3, 20+i*i) : convex
		return ref.P{int64(2*(20+3*i) + 1), int64(2*(20+i*i) + 1)}
	}
	var bodies [][]int
	var rec func(w []int)
	rec = func(w []int) {
		if len(w) >= 3 {
			bodies = append(bodies, append([]int{}, w...))
		}
		if len(w) == maxBody {
			return
		}
		for s := 0; s < 3; s++ {
			if s != w[len(w)-1] {
				rec(append(w, s))
			}
		}
	}
	rec([]int{0, 1})
	var out [][][]ref.P
	for q := 0; q <= maxQ; q++ {
		for t := 0; t <= maxT; t++ {
			for _, b := range bodies {
				var ring []ref.P
				for i := 0; i < q; i++ {
					ring = append(ring, centre(i))
				}
				for _, s := range b {
					ring = append(ring, centre(q+s))
				}
				for i := 0; i < t; i++ {
					ring = append(ring, centre(q+3+i))
				}
				if ring[0] == ring[len(ring)-1] {
					continue // closing duplicate: the same cyclic walk appears without it
				}
				out = append(out, [][]ref.P{ring})
			}
		}
	}
	return out
}

func kmpScope(thorough bool) Scope {
	return Scope{Name: "F-kmp", GS: synthGS(4, 2, [2]int64{0, 0}), Spec: lat.Spec{Explicit: kmpFamily(thorough)}, IDSets: [][]int{{4}}, Cfgs: keepCfgs}
}

// borderKiteFamily: kites with a triangular hole whose tip lies within a few fixed-point steps of a
// border between two shallow quadrants of a real (non-dyadic) grid: the quadrant extents used while
// descending the index are computed with truncated divisions, so a vertex just beside such a border is
// where the descent and the indexing of vertices can disagree.  Lattice: sub = 2^20 steps per pixel of
// the deepest id; the origin of the lattice is put on the border (see borderScopes).  The figure is
// turned in all four directions so that the tip approaches a vertical and a horizontal border from
// either side; e = distance of the tip from the border in steps.
const borderSub = int64(1) << 20

func borderKiteFamily(thorough bool) [][][]ref.P {
	es := []int64{-50, -5, -1, 0, 1, 5, 50}
	if thorough {
		es = []int64{-500, -50, -11, -5, -2, -1, 0, 1, 2, 5, 11, 50, 500}
	}
	t := func(px10 int64) int64 { return px10 * borderSub / 10 } // tenths of a pixel -> steps
	var out [][][]ref.P
	for _, e := range es {
		shell := []ref.P{{e, t(6)}, {t(-34), t(28)}, {t(-65), t(7)}, {t(-33), t(-18)}}
		hole := []ref.P{{t(-23), t(8)}, {t(-47), t(-1)}, {t(-46), t(13)}}
		if ref.Area2(shell) <= 0 {
			continue
		}
		if ref.Area2(hole) > 0 {
			hole[1], hole[2] = hole[2], hole[1]
		}
		for turn := 0; turn < 4; turn++ {
			for _, sr := range rotations(shell, allRot(4)) {
				for _, hr := range rotations(hole, allRot(3)) {
					if ref.HoleOK(sr, nil, hr) {
						out = append(out, [][]ref.P{append([]ref.P{}, sr...), append([]ref.P{}, hr...)})
					}
				}
			}
			for i := range shell {
				shell[i] = ref.P{-shell[i][1], shell[i][0]}
			}
			for i := range hole {
				hole[i] = ref.P{-hole[i][1], hole[i][0]}
			}
		}
	}
	return out
}

// borderScopes: the kite family at anchors of WebMercatorQuad (whose extent is not a power of two
// times the fixed-point unit) where the lattice origin lies on a border of level 1 (centre of the
// extent) resp. of levels 2 and 3 on the two axes; id 10 as in the tool's documentation examples.
func borderScopes(thorough bool) []Scope {
	const z = 10
	size := int64(1) << (z + 8 + 4) // pixels per axis on the deepest level of id 10 (tile width 256)
	var scs []Scope
	for _, a := range []struct {
		name string
		px   [2]int64
	}{
		{"centre", [2]int64{size / 2, size / 2}},
		{"L2xL3", [2]int64{3 * size / 4, 5 * size / 8}},
	} {
		scs = append(scs, Scope{Name: "F-border-kite:WebMercatorQuad-z10@" + a.name,
			GS:   GridSpec{Kind: "real", Set: "WebMercatorQuad", Deepest: z, Sub: borderSub, OffPx: a.px},
			Spec: lat.Spec{Explicit: borderKiteFamily(thorough), Valid: true}, IDSets: [][]int{{z}}, Cfgs: keepCfgs})
	}
	// the same kites with the tip on the pixel border x = -43.84 of NetherlandsRDNewQuad (a border of every id; its
	// product with 1e10 is not a whole number, so conversions that round negative ordinates differently disagree there)
	scs = append(scs, Scope{Name: "F-border-kite:NetherlandsRDNewQuad-z14@x=-43.84",
		GS:   GridSpec{Kind: "real", Set: "NetherlandsRDNewQuad", Deepest: 14, Sub: borderSub, OffPx: [2]int64{21741568, 21143552}},
		Spec: lat.Spec{Explicit: borderKiteFamily(thorough), Valid: true}, IDSets: [][]int{{14}}, Cfgs: keepCfgs})
	return scs
}

// cellUnionFamily: every polygon that is the union of a subset of the cells of an nx x ny grid of
// rectangles with the given cell borders (quarter pixels; thin columns/rows are thinner than a
// pixel), provided the union is edge-connected and has no vertex where it touches itself only
// diagonally (such a polygon would be invalid).  Bounded components of the complement become
// holes.  This enumerates rectilinear shapes wholesale - necks, combs, C/U/O shapes, moats, holes
// next to thin walls - instead of one hand-made family per shape.  Variants: collinear vertices
// merged or every grid point on the boundary kept as a vertex; start vertices per ring as given by
// rots (fractions of the ring length in eighths; nil = every start vertex).
// famOwn: the member with this index is enumerated by this process (lat.Enumerate hands member i of an explicit family to
// shard i mod n; the parent process only counts).  The large cell-union families keep a nil placeholder for the members of
// other shards, so that 16 worker processes do not each hold the whole family in memory.
var famShardI, famShardN, famCountOnly = func() (int, int, bool) {
	i, n := 0, 1
	if v := os.Getenv("VERIF_SHARD"); v != "" {
		fmt.Sscanf(v, "%d/%d", &i, &n)
		return i, n, false
	}
	// no shard assignment: the parent (it only needs the number of scopes) - or a replay, which takes its input from a file
	return 0, 1, os.Getenv("VERIF_REPLAY") == ""
}()

func famOwn(i int) bool { return !famCountOnly && i%famShardN == famShardI }

func cellUnionFamily(xs, ys []int64, rots []int, keepGridPoints []bool) [][][]ref.P {
	nx, ny := len(xs)-1, len(ys)-1
	n := nx * ny
	var out [][][]ref.P
	filled := make([]bool, n)
	at := func(i, j int) bool { return i >= 0 && j >= 0 && i < nx && j < ny && filled[j*nx+i] }
	type vtx [2]int
	for mask := 1; mask < 1<<uint(n); mask++ {
		cnt := 0
		first := -1
		for c := 0; c < n; c++ {
			filled[c] = mask>>uint(c)&1 == 1
			if filled[c] {
				cnt++
				if first < 0 {
					first = c
				}
			}
		}
		// edge-connected?
		seen := make([]bool, n)
		stack := []int{first}
		seen[first] = true
		reached := 0
		for len(stack) > 0 {
			c := stack[len(stack)-1]
			stack = stack[:len(stack)-1]
			reached++
			i, j := c%nx, c/nx
			for _, d := range [][2]int{{1, 0}, {-1, 0}, {0, 1}, {0, -1}} {
				a, b := i+d[0], j+d[1]
				if at(a, b) && !seen[b*nx+a] {
					seen[b*nx+a] = true
					stack = append(stack, b*nx+a)
				}
			}
		}
		if reached != cnt {
			continue
		}
		// diagonal-only contact at a grid vertex (also of the complement: a hole touching the shell or another hole in a point)
		pinch := false
		for i := 0; i <= nx && !pinch; i++ {
			for j := 0; j <= ny; j++ {
				a, b, c, d := at(i-1, j-1), at(i, j-1), at(i-1, j), at(i, j)
				if (a && d && !b && !c) || (b && c && !a && !d) {
					pinch = true
					break
				}
			}
		}
		if pinch {
			continue
		}
		// directed boundary edges, interior on the left
		next := map[vtx]vtx{}
		for j := 0; j < ny; j++ {
			for i := 0; i < nx; i++ {
				if !at(i, j) {
					continue
				}
				if !at(i, j-1) {
					next[vtx{i, j}] = vtx{i + 1, j}
				}
				if !at(i+1, j) {
					next[vtx{i + 1, j}] = vtx{i + 1, j + 1}
				}
				if !at(i, j+1) {
					next[vtx{i + 1, j + 1}] = vtx{i, j + 1}
				}
				if !at(i-1, j) {
					next[vtx{i, j + 1}] = vtx{i, j}
				}
			}
		}
		var loops [][]vtx
		for len(next) > 0 {
			// deterministic start: smallest (j, i)
			var s vtx
			have := false
			for v := range next {
				if !have || v[1] < s[1] || (v[1] == s[1] && v[0] < s[0]) {
					s, have = v, true
				}
			}
			var loop []vtx
			for v := s; ; {
				loop = append(loop, v)
				w := next[v]
				delete(next, v)
				v = w
				if v == s {
					break
				}
			}
			loops = append(loops, loop)
		}
		for _, keep := range keepGridPoints {
			var shell []ref.P
			var holes [][]ref.P
			for _, loop := range loops {
				var r []ref.P
				m := len(loop)
				for k, v := range loop {
					p, q := loop[(k+m-1)%m], loop[(k+1)%m]
					straight := (p[0] == v[0] && v[0] == q[0]) || (p[1] == v[1] && v[1] == q[1])
					if straight && !keep {
						continue
					}
					r = append(r, ref.P{xs[v[0]], ys[v[1]]})
				}
				if ref.Area2(r) > 0 {
					shell = r
				} else {
					holes = append(holes, r)
				}
			}
			if rots == nil {
				// every start vertex of every ring: ring r starts at its vertex k mod len(r), k = 0 .. longest ring - 1
				longest := len(shell)
				for _, h := range holes {
					if len(h) > longest {
						longest = len(h)
					}
				}
				for k := 0; k < longest; k++ {
					if !famOwn(len(out)) {
						out = append(out, nil) // another shard's member: keep the index, not the polygon
						continue
					}
					rings := [][]ref.P{rotations(shell, []int{k})[0]}
					for _, h := range holes {
						rings = append(rings, rotations(h, []int{k})[0])
					}
					out = append(out, rings)
				}
				continue
			}
			for _, e := range rots {
				if !famOwn(len(out)) {
					out = append(out, nil)
					continue
				}
				rings := [][]ref.P{rotations(shell, []int{len(shell) * e / 8})[0]}
				for _, h := range holes {
					rings = append(rings, rotations(h, []int{len(h) * e / 8})[0])
				}
				out = append(out, rings)
			}
		}
	}
	return out
}

// cellScopes: cell-union families over layouts that differ in where the thin columns/rows sit
// relative to the pixel grid (inside one pixel, across a pixel border) and in how wide the thick
// cells are (wide enough to have interior more than one pixel from the boundary, for C04's
// coverage clause, or about one pixel, for heavy collapsing).
func cellScopes(thorough bool) []Scope {
	var rots []int // every start vertex: spike removal and ring splitting work on the vertex list from the start vertex, without wrap-around
	both := []bool{false, true}
	type layout struct {
		name   string
		xs, ys []int64
	}
	ls := []layout{
		{"wide+thin-inside-pixel", []int64{1, 10, 11, 20, 21}, []int64{1, 10, 11, 20}},
		{"mixed", []int64{2, 7, 8, 17, 19}, []int64{1, 10, 11, 16}},
		{"pixel-sized+thin", []int64{1, 6, 7, 12, 13}, []int64{2, 7, 8, 13}},
		{"sub-pixel", []int64{0, 3, 5, 10, 12}, []int64{2, 5, 7, 10}},
	}
	if thorough {
		ls = append(ls,
			layout{"5x4:wide+thin-inside-pixel", []int64{1, 10, 11, 20, 21, 30}, []int64{1, 10, 11, 20, 21}},
			layout{"5x4:pixel-sized+thin", []int64{1, 6, 7, 12, 13, 18}, []int64{2, 7, 8, 13, 14}},
		)
	}
	var scs []Scope
	// 4x4 cells: three rows thinner than a pixel inside one pixel row (a strip with a slit in it) below a wide row,
	// columns wide / very wide / thin / wide; every start vertex, collinear vertices merged; 32-pixel grid
	big := cellUnionFamily([]int64{16, 24, 57, 59, 89}, []int64{16, 17, 18, 19, 48}, nil, []bool{false})
	scs = append(scs, Scope{Name: "F-cells4x4:strip-with-slit", GS: GridSpec{Kind: "synth", Deepest: 1, Px: 1, Sub: 4, OffPx: [2]int64{0, 0}, TileWidth: 1},
		Spec: lat.Spec{Explicit: big, Valid: true}, IDSets: [][]int{{1}}, Cfgs: keepCfgs})
	if thorough {
		tr := cellUnionFamily([]int64{16, 17, 18, 19, 48}, []int64{16, 24, 57, 59, 89}, nil, []bool{false, true})
		scs = append(scs, Scope{Name: "F-cells4x4:strip-with-slit-transposed", GS: GridSpec{Kind: "synth", Deepest: 1, Px: 1, Sub: 4, OffPx: [2]int64{0, 0}, TileWidth: 1},
			Spec: lat.Spec{Explicit: tr, Valid: true}, IDSets: [][]int{{1}}, Cfgs: keepCfgs})
	}
	// the same kind of family on a three-level grid, all three ids requested together: thin frames around wide holes,
	// so that the few-vertex shell picks up many centres from the hole's vertices and its snapped ring grows well
	// beyond twice its length on the finest level while it collapses on the coarsest
	multi := cellUnionFamily([]int64{1, 2, 19, 20, 37}, []int64{1, 2, 19, 20}, []int{0, 3}, both)
	scs = append(scs, Scope{Name: "F-cells-multi:thin-frame", GS: synthGS(2, 4, [2]int64{8, 12}), Spec: lat.Spec{Explicit: multi, Valid: true}, IDSets: [][]int{{0, 1, 2}}, Cfgs: keepCfgs})
	scs = append(scs, Scope{Name: "F-comb-multi", GS: synthGS(2, 4, [2]int64{8, 12}), Spec: lat.Spec{Explicit: combFamily(thorough), Valid: true}, IDSets: [][]int{{0, 1, 2}, {2, 0}}, Cfgs: keepCfgs})
	for _, l := range ls {
		scs = append(scs, Scope{Name: "F-cells:" + l.name, GS: synthGS(0, 4, [2]int64{3, 5}), Spec: lat.Spec{Explicit: cellUnionFamily(l.xs, l.ys, rots, both), Valid: true}, IDSets: [][]int{{0}}, Cfgs: keepCfgs})
	}
	return scs
}

// nestedFamily: three levels of nesting inside one valid polygon.  A square shell; a ring-shaped
// hole (a moat) whose ring is interrupted by an opening thinner than a pixel, so that after
// snapping the opening closes and the bay enclosed by the moat becomes an island (a new outer ring
// inside the moat's outline); and a second hole inside that island.  The second hole lies inside two
// outer rings (the shell and the island) and must end up in the island, whatever the areas of the two
// candidates (frame thinner or thicker than the island), the order of the holes and the start vertices.
// Without the second hole the family still asks that the moat ends up as a hole of the shell and the
// island as a polygon of its own, for every start vertex of the moat ring (on the island side, in the
// opening, on the frame side).
// Quarter pixels; the figure is 20 px wide and is turned in all four directions.
func nestedFamily(thorough bool) [][][]ref.P {
	const L = int64(80)
	frames := []int64{6, 12}
	opens := []int64{1, 2}
	moatRots := allRot(12)
	widths := []int64{8, 3} // moat width 2 px (the opening collapses to a line) or 0.75 px (it can collapse into one pixel)
	if thorough {
		frames = []int64{4, 6, 9, 12, 16}
		widths = []int64{8, 5, 4, 3, 2}
	}
	const inset = int64(12) // hole 2 is 3 px inside the island
	var out [][][]ref.P
	turn := func(r []ref.P) []ref.P {
		o := make([]ref.P, len(r))
		for i, p := range r {
			o[i] = ref.P{L - p[1], p[0]}
		}
		return o
	}
	shift := func(r []ref.P) []ref.P { // off the pixel corners
		o := make([]ref.P, len(r))
		for i, p := range r {
			o[i] = ref.P{p[0] + 1, p[1] + 1}
		}
		return o
	}
	rev := func(r []ref.P) []ref.P {
		o := make([]ref.P, len(r))
		for i := range r {
			o[len(r)-1-i] = r[i]
		}
		return o
	}
	for _, fw := range frames {
		for _, w := range widths {
			out = append(out, nestedOne(L, fw, w, inset, opens, moatRots, turn, shift, rev)...)
		}
	}
	return out
}

func nestedOne(L, f, w, inset int64, opens []int64, moatRots []int, turn, shift, rev func([]ref.P) []ref.P) [][][]ref.P {
	var out [][][]ref.P
	{
		a, b := f, L-f
		c, d := f+w, L-f-w
		for _, o := range opens {
			for _, g := range []int64{c + 2, L/2 - 2} {
				shell := rect(0, 0, L, L, false)
				moat := rev([]ref.P{{a, a}, {b, a}, {b, b}, {g + o, b}, {g + o, d}, {d, d}, {d, c}, {c, c}, {c, d}, {g, d}, {g, b}, {a, b}})
				hole2 := rect(c+inset, c+inset, d-inset, d-inset, true)
				for t := 0; t < 4; t++ {
					for _, mr := range rotations(moat, moatRots) {
						for _, hr := range rotations(hole2, []int{0, 2}) {
							s, m, h := shift(shell), shift(mr), shift(hr)
							if !ref.HoleOK(s, nil, m) || !ref.HoleOK(s, [][]ref.P{m}, h) {
								continue
							}
							out = append(out, [][]ref.P{s, m, h}, [][]ref.P{s, h, m})
						}
						// the moat alone: the island has no hole of its own
						if s, m := shift(shell), shift(mr); ref.HoleOK(s, nil, m) {
							out = append(out, [][]ref.P{s, m})
						}
					}
					shell, moat, hole2 = turn(shell), turn(moat), turn(hole2)
				}
			}
		}
	}
	return out
}

// combFamily: a rectangular shell of four vertices and a hole whose side next to a shell edge is a comb of n
// teeth, every tooth corner in another pixel of the pixel row that the shell edge runs through: the shell's
// snapped ring picks up all of them (4 vertices become 4 + 2n + 2 and more).  Used on a three-level grid with all
// ids requested: per-level work buffers sized from the input ring are outgrown on the finest level.
func combFamily(thorough bool) [][][]ref.P {
	teeth := []int{2, 3, 4, 5}
	if thorough {
		teeth = []int{1, 2, 3, 4, 5, 6, 8}
	}
	var out [][][]ref.P
	for _, n := range teeth {
		for _, off := range []int64{0, 1} {
			W := int64(8*n + 16)
			H := int64(48)
			shell := rect(0, 0, W, H, false)
			// hole, clockwise: up the left side, along the top, down the right side, back along the comb
			hole := []ref.P{{4, 2}, {4, H - 8}, {W - 4, H - 8}, {W - 4, 2}}
			for i := n - 1; i >= 0; i-- {
				x := int64(8 + 8*i)
				hole = append(hole, ref.P{x + 4, 2}, ref.P{x + 4, 6}, ref.P{x, 6}, ref.P{x, 2})
			}
			if ref.Area2(hole) > 0 {
				for l, r := 0, len(hole)-1; l < r; l, r = l+1, r-1 {
					hole[l], hole[r] = hole[r], hole[l]
				}
			}
			for t := 0; t < 4; t++ {
				for _, sr := range rotations(shell, allRot(4)) {
					for _, hr := range rotations(hole, []int{0, len(hole) / 2}) {
						s, h := make([]ref.P, len(sr)), make([]ref.P, len(hr))
						for i, p := range sr {
							s[i] = ref.P{p[0] + off, p[1] + off}
						}
						for i, p := range hr {
							h[i] = ref.P{p[0] + off, p[1] + off}
						}
						if ref.HoleOK(s, nil, h) {
							out = append(out, [][]ref.P{s, h})
						}
					}
				}
				// quarter turn about the origin, moved back into the positive quadrant
				for i, p := range shell {
					shell[i] = ref.P{H + W - p[1], p[0]}
				}
				for i, p := range hole {
					hole[i] = ref.P{H + W - p[1], p[0]}
				}
			}
		}
	}
	return out
}

// moat2Family: two lake + ditch constructs (see moatFamily) side by side in one shell: two separate groups of
// rings that become equal after snapping, each of which must cancel to exactly one hole, whatever the order of
// the four holes and the start vertices of the ditches.
func moat2Family(thorough bool) [][][]ref.P {
	var out [][][]ref.P
	shell := rect(0, 0, 116, 56, false)
	gaps := []int64{20, 31}
	rots := []int{0, 5}
	if thorough {
		gaps = []int64{14, 20, 26, 31, 36}
		rots = []int{0, 3, 5, 6, 11}
	}
	mkSized := func(dx, inset, g, far int64) (lake, ditch []ref.P) {
		lake = rect(dx+14+inset, 14+inset, dx+far-2-inset, far-2-inset, true)
		o0, o1, i0, i1 := int64(12), far, int64(13), far-1
		d := []ref.P{{g + 2, i1}, {g + 2, o1}, {o1, o1}, {o1, o0}, {o0, o0}, {o0, o1}, {g, o1}, {g, i1}, {i0, i1}, {i0, i0}, {i1, i0}, {i1, i1}}
		if ref.Area2(d) > 0 {
			for l, r := 0, len(d)-1; l < r; l, r = l+1, r-1 {
				d[l], d[r] = d[r], d[l]
			}
		}
		for _, p := range d {
			ditch = append(ditch, ref.P{p[0] + dx, p[1]})
		}
		return
	}
	mk := func(dx, inset, g int64) (lake, ditch []ref.P) { return mkSized(dx, inset, g, 43) }
	for _, inset := range []int64{0, 1} {
		for _, ga := range gaps {
			for _, gb := range gaps {
				la, da := mk(0, inset, ga)
				lb, db := mk(60, inset, gb)
				for _, ra := range rotations(da, rots) {
					for _, rb := range rotations(db, rots) {
						if !ref.HoleOK(shell, nil, la) || !ref.HoleOK(shell, [][]ref.P{la}, ra) || !ref.HoleOK(shell, [][]ref.P{la, ra}, lb) || !ref.HoleOK(shell, [][]ref.P{la, ra, lb}, rb) {
							continue
						}
						out = append(out, [][]ref.P{shell, la, ra, lb, rb}, [][]ref.P{shell, rb, la, lb, ra}, [][]ref.P{shell, la, lb, ra, rb})
						// ditches without their lakes (each collapses to an outer and an equal inner that must cancel: two
						// separate groups of equal rings), and one construct with, one without its lake
						out = append(out, [][]ref.P{shell, ra, rb}, [][]ref.P{shell, rb, ra}, [][]ref.P{shell, la, ra, rb}, [][]ref.P{shell, ra, lb, rb}, [][]ref.P{shell, rb, lb, ra})
						// the same with a second construct of another size (a mix-up between the two groups of equal rings
						// must not cancel out in the total area)
						if gb < 30 {
							ls, ds := mkSized(60, inset, gb, 35)
							for _, rs := range rotations(ds, rots) {
								if ref.HoleOK(shell, [][]ref.P{ra}, rs) && ref.HoleOK(shell, [][]ref.P{ra, rs}, ls) {
									out = append(out, [][]ref.P{shell, ra, rs}, [][]ref.P{shell, rs, ra}, [][]ref.P{shell, ra, ls, rs})
								}
							}
						}
					}
				}
			}
		}
	}
	return out
}
