//go:build instr

// pipemc decides C10 and C11: the real processing package (mechanically
// instrumented so that every channel operation, go statement, WaitGroup
// operation and map iteration is a scheduling / choice point) is driven with
// fake source, targets and snapping function; a stateless DFS explores every
// schedule within the preemption bound (or all of them, with state-hash
// pruning) for every feature stream of the scope and compares what the targets
// received with a sequential reference.
package main

import (
	"encoding/json"
	"fmt"
	"io"
	"log"
	"os"
	"reflect"
	"runtime"
	"sort"
	"strings"
	"time"

	"github.com/go-spatial/geom"
	"github.com/pdok/texel/processing"
	"github.com/pdok/texel/zzverif/vsrt"
	"verif/engine/ev"
	"verif/engine/sched"
)

// ---------- feature alphabet ----------

// partSpec: outcome of snapping one polygon (or one part of a multipolygon):
// number of resulting polygons per target index (0 dropped, 1 kept, 2 split)
type partSpec []int

type featSpec struct {
	Kind  string     `json:"kind"` // "N" non-polygon, "P" polygon, "M" multipolygon
	Parts []partSpec `json:"parts,omitempty"`
	T     int        `json:"type,omitempty"` // for "N": which non-polygon geometry (see nonPolygon)
}

// nonPolygon: the geometry of non-polygon feature i of type t.  Every one of them must reach every
// target untouched: simple types, multi types, collections (also one that contains a polygon, and an
// empty one), a pointer to a geometry and a feature without geometry.
const nonPolygonTypes = 8

func nonPolygon(i, t int) geom.Geometry {
	x := float64(i)
	switch t {
	case 1:
		return geom.LineString{{x, 0.5}, {x + 1, 1.5}}
	case 2:
		return geom.MultiPoint{{x, 0.5}, {x, 2.5}}
	case 3:
		return geom.MultiLineString{{{x, 0.5}, {x + 1, 1.5}}, {{x, 2}, {x, 3}}}
	case 4:
		return geom.Collection{geom.Point{x, 0.5}, geom.Polygon{{{x, 0}, {x + 4, 0}, {x + 4, 4}, {x, 4}}}}
	case 5:
		return geom.Collection{}
	case 6:
		return nil
	case 7:
		return &geom.Point{x, 0.5}
	}
	return geom.Point{x, 0.5}
}

func (f featSpec) String() string {
	if f.Kind == "N" {
		if f.T != 0 {
			return fmt.Sprintf("N%d", f.T)
		}
		return "N"
	}
	var ps []string
	for _, p := range f.Parts {
		s := ""
		for _, c := range p {
			s += fmt.Sprint(c)
		}
		ps = append(ps, s)
	}
	return f.Kind + "(" + strings.Join(ps, ",") + ")"
}

type feature struct {
	id   int
	cols []interface{}
	g    geom.Geometry
}

func (f *feature) Columns() []interface{}  { return f.cols }
func (f *feature) Geometry() geom.Geometry { return f.g }

// polygons carry their identity in their coordinates: ring [[fid, part], [tm, k], [0,0]]
func inPolygon(fid, part int) geom.Polygon {
	return geom.Polygon{{{float64(fid), float64(part)}, {-1, -1}, {0, 0}}}
}
func outPolygon(fid, part, tm, k int) geom.Polygon {
	return geom.Polygon{{{float64(fid), float64(part)}, {float64(tm), float64(k)}, {0, 0}}}
}

type scenario struct {
	Stream  []featSpec `json:"stream"`
	Targets int        `json:"targets"`
	tmIDs   []int
	// Async: the source hands the channel to a goroutine of its own and returns from ReadFeatures at once (a
	// prefetching reader); that goroutine sends the features and closes the channel
	Async bool
}

func (sc *scenario) build() []*feature {
	var fs []*feature
	for i, s := range sc.Stream {
		f := &feature{id: i, cols: []interface{}{int64(i), fmt.Sprintf("attr-%d", i)}}
		switch s.Kind {
		case "N":
			f.g = nonPolygon(i, s.T)
		case "P":
			f.g = inPolygon(i, 0)
		case "M":
			mp := geom.MultiPolygon{}
			for p := range s.Parts {
				mp = append(mp, inPolygon(i, p))
			}
			f.g = mp
		}
		fs = append(fs, f)
	}
	return fs
}

// snapFunc: the fake snapping function, driven by the outcome table
func (sc *scenario) snapFunc(slow bool) func(p geom.Polygon, tmIDs []int) map[int][]geom.Polygon {
	return func(p geom.Polygon, tmIDs []int) map[int][]geom.Polygon {
		fid, part := int(p[0][0][0]), int(p[0][0][1])
		if slow {
			sched.Yield("")
		}
		out := map[int][]geom.Polygon{}
		for _, tm := range tmIDs {
			ti := sort.SearchInts(sc.tmIDs, tm)
			n := sc.Stream[fid].Parts[part][ti]
			for k := 0; k < n; k++ {
				out[tm] = append(out[tm], outPolygon(fid, part, tm, k))
			}
		}
		return out
	}
}

type rec struct {
	Fid  int            `json:"fid"`
	Cols string         `json:"cols"`
	Geom []geom.Polygon `json:"polygons,omitempty"`
	Raw  string         `json:"geometry"`
}

func flatten(g geom.Geometry) ([]geom.Polygon, string) {
	switch v := g.(type) {
	case geom.Polygon:
		return []geom.Polygon{v}, ""
	case geom.MultiPolygon:
		var ps []geom.Polygon
		for _, p := range v {
			ps = append(ps, p)
		}
		return ps, ""
	}
	return nil, fmt.Sprintf("%T%v", g, g)
}

func record(f processing.Feature) rec {
	cols := f.Columns()
	r := rec{Fid: -1, Cols: fmt.Sprint(cols)}
	if len(cols) > 0 {
		if id, ok := cols[0].(int64); ok {
			r.Fid = int(id)
		}
	}
	ps, raw := flatten(f.Geometry())
	// deep copy: later overwrites of shared buffers must not change what was observed now
	for _, p := range ps {
		cp := make(geom.Polygon, len(p))
		for i := range p {
			cp[i] = append([][2]float64{}, p[i]...)
		}
		r.Geom = append(r.Geom, cp)
	}
	r.Raw = raw
	return r
}

// reference: what target ti must receive, in order
func (sc *scenario) reference(ti int) []rec {
	var out []rec
	tm := sc.tmIDs[ti]
	for i, s := range sc.Stream {
		cols := fmt.Sprint([]interface{}{int64(i), fmt.Sprintf("attr-%d", i)})
		switch s.Kind {
		case "N":
			g := nonPolygon(i, s.T)
			out = append(out, rec{Fid: i, Cols: cols, Raw: fmt.Sprintf("%T%v", g, g)})
		default:
			var ps []geom.Polygon
			for p, part := range s.Parts {
				for k := 0; k < part[ti]; k++ {
					ps = append(ps, outPolygon(i, p, tm, k))
				}
			}
			if len(ps) > 0 {
				out = append(out, rec{Fid: i, Cols: cols, Geom: ps})
			}
		}
	}
	return out
}

// ---------- fakes ----------

type fakeSource struct {
	feats []*feature
	async bool
}

func (s *fakeSource) ReadFeatures(ch chan<- processing.Feature) {
	send := func() {
		for _, f := range s.feats {
			vsrt.Pre(vsrt.KSend, ch)
			ch <- f
		}
		vsrt.Pre(vsrt.KClose, ch)
		close(ch)
	}
	if s.async {
		vsrt.Go("asyncReader", send)
		return
	}
	send()
}

type fakeTarget struct {
	tm           int
	table        *string // re-assigned by the caller right after ProcessFeatures returns
	held         []processing.Feature
	atHandle     []rec
	atFlush      []rec
	tableAtFlush string
	flushed      bool
	started      bool
}

func (t *fakeTarget) WriteFeatures(ch <-chan processing.Feature) {
	t.started = true
	for {
		vsrt.Pre(vsrt.KRecv, ch)
		f, ok := <-ch
		if !ok {
			sched.Yield("") // the final page is written in a separately scheduled step
			for _, h := range t.held {
				t.atFlush = append(t.atFlush, record(h))
			}
			t.tableAtFlush = *t.table
			t.flushed = true
			return
		}
		sched.Yield("") // handling a feature is a separately scheduled step
		t.held = append(t.held, f)
		t.atHandle = append(t.atHandle, record(f))
	}
}

// ---------- one execution ----------

type outcome struct {
	sc           *scenario
	targets      []*fakeTarget
	returned     bool
	flushedAtRet []bool
	gotAtRet     []int
	table        string
	x            *sched.Exec
}

func execute(sc *scenario, prefix []int, slow bool) *outcome {
	o := &outcome{sc: sc}
	o.table = "table-1"
	tm := map[int]processing.Target{}
	for _, id := range sc.tmIDs {
		t := &fakeTarget{tm: id, table: &o.table}
		o.targets = append(o.targets, t)
		tm[id] = t
	}
	src := &fakeSource{feats: sc.build(), async: sc.Async}
	body := func() {
		processing.ProcessFeatures(src, tm, sc.snapFunc(slow))
		sched.Yield("returned")
		// the caller switches source and targets to the next table as soon as the call returns
		o.table = "table-2"
	}
	o.x = sched.Run(prefix, body, func(x *sched.Exec, tag string, g *sched.G) {
		if tag == "returned" {
			o.returned = true
			for _, t := range o.targets {
				o.flushedAtRet = append(o.flushedAtRet, t.flushed)
				o.gotAtRet = append(o.gotAtRet, len(t.atHandle))
			}
		}
	})
	return o
}

type problem struct {
	Sig, What string
}

// judge evaluates one complete execution.  family "content" = C10, "liveness" = C11
func (o *outcome) judge() (content, liveness []problem) {
	x := o.x
	if x.Err != "" {
		class := "panic"
		switch {
		case strings.HasPrefix(x.Err, "deadlock"):
			class = "deadlock"
		case strings.Contains(x.Err, "send on closed channel"):
			class = "send-on-closed-channel"
		case strings.Contains(x.Err, "close of closed channel"):
			class = "double-close"
		case strings.Contains(x.Err, "negative WaitGroup counter"):
			class = "negative-waitgroup"
		case strings.Contains(x.Err, "no target channel"):
			class = "no-target-channel"
		case strings.Contains(x.Err, "no new polygon"):
			class = "empty-polygon-list-panic"
		}
		liveness = append(liveness, problem{class, x.Err})
		content = append(content, problem{"execution-did-not-complete:" + class, x.Err})
		return
	}
	if !o.returned {
		liveness = append(liveness, problem{"never-returned", "ProcessFeatures did not return although no goroutine is blocked"})
		return
	}
	for ti, t := range o.targets {
		want := o.sc.reference(ti)
		if !o.flushedAtRet[ti] {
			liveness = append(liveness, problem{"returned-before-target-finished", fmt.Sprintf("ProcessFeatures returned while target %d (tile matrix %d) had handled %d of %d features and had not finished its final write (started=%v)", ti, t.tm, o.gotAtRet[ti], len(want), t.started)})
		}
		if t.flushed && t.tableAtFlush != "table-1" {
			liveness = append(liveness, problem{"target-saw-next-table", fmt.Sprintf("target %d did its final write after the caller had switched to the next table", ti)})
		}
		if !t.flushed {
			liveness = append(liveness, problem{"target-never-finished", fmt.Sprintf("target %d never finished", ti)})
		}
		if what := diffRecs(want, t.atHandle); what != "" {
			content = append(content, problem{"wrong-delivery:" + classify(want, t.atHandle), fmt.Sprintf("target %d (tile matrix %d): %s", ti, t.tm, what)})
			liveness = append(liveness, problem{"drop-dup-reorder:" + classify(want, t.atHandle), fmt.Sprintf("target %d (tile matrix %d): %s", ti, t.tm, what)})
		} else if t.flushed {
			if what := diffRecs(want, t.atFlush); what != "" {
				content = append(content, problem{"geometry-changed-after-delivery", fmt.Sprintf("target %d (tile matrix %d): a delivered feature changed before the target's final write: %s", ti, t.tm, what)})
			}
		}
	}
	return
}

func classify(want, got []rec) string {
	switch {
	case len(got) < len(want):
		return "missing"
	case len(got) > len(want):
		return "extra"
	}
	ids := func(r []rec) []int {
		var o []int
		for _, x := range r {
			o = append(o, x.Fid)
		}
		return o
	}
	if !reflect.DeepEqual(ids(want), ids(got)) {
		return "order-or-identity"
	}
	return "geometry-or-attributes"
}

func diffRecs(want, got []rec) string {
	if len(want) != len(got) {
		return fmt.Sprintf("received %d features %v, expected %d %v", len(got), fids(got), len(want), fids(want))
	}
	for i := range want {
		w, g := want[i], got[i]
		if w.Fid != g.Fid {
			return fmt.Sprintf("position %d: feature %d, expected feature %d (received order %v)", i, g.Fid, w.Fid, fids(got))
		}
		if w.Cols != g.Cols {
			return fmt.Sprintf("feature %d: attributes %s, expected %s", g.Fid, g.Cols, w.Cols)
		}
		if w.Raw != g.Raw || !reflect.DeepEqual(w.Geom, g.Geom) {
			return fmt.Sprintf("feature %d: geometry %v %s, expected %v %s (coordinates encode [feature part] [tile-matrix k])", g.Fid, g.Geom, g.Raw, w.Geom, w.Raw)
		}
	}
	return ""
}

func fids(r []rec) []int {
	var o []int
	for _, x := range r {
		o = append(o, x.Fid)
	}
	return o
}

// ---------- explorer ----------

type stats struct {
	Execs, States, Transitions, MultiEnabled, Points int64
	Outcomes                                         map[string]int64
	LastToSlowest                                    int64
	Pruned                                           int64
}

type explorer struct {
	sc      *scenario
	bound   int // -1 = unbounded (all schedules, state pruning)
	slow    bool
	visited map[uint64]int
	st      *stats
	onExec  func(o *outcome, choices []int) bool // return false to stop
	stop    bool
	expired func() bool
}

func (e *explorer) run() {
	e.visited = map[uint64]int{}
	e.rec(nil, 0)
}

func (e *explorer) rec(prefix []int, used int) {
	if e.stop {
		return
	}
	o := execute(e.sc, prefix, e.slow)
	x := o.x
	if x.Harness != "" {
		ev.HarnessError("%s (scenario %v, prefix %v)", x.Harness, e.sc.Stream, prefix)
	}
	e.st.Execs++
	if !e.onExec(o, x.Choices) {
		e.stop = true
		return
	}
	if e.expired != nil && e.st.Execs&63 == 0 && e.expired() {
		e.stop = true
		return
	}
	cost := used
	// cost of the prefix was accounted by the caller; walk the new part
	for i := len(prefix); i < len(x.Points); i++ {
		p := x.Points[i]
		e.st.Points++
		if len(p.Costs) > 1 {
			e.st.MultiEnabled++
		}
		rem := 1 << 30
		if e.bound >= 0 {
			rem = e.bound - cost
		}
		if old, seen := e.visited[p.Key]; seen && old >= rem {
			e.st.Pruned++
			break // this state was already expanded with at least as much budget
		}
		if _, seen := e.visited[p.Key]; !seen {
			e.st.States++
		}
		e.visited[p.Key] = rem
		for alt := 1; alt < len(p.Costs); alt++ {
			c := cost + p.Costs[alt]
			if e.bound >= 0 && c > e.bound {
				continue
			}
			e.st.Transitions++
			e.rec(append(append([]int{}, x.Choices[:i]...), alt), c)
			if e.stop {
				return
			}
		}
		e.st.Transitions++ // the default alternative taken by this run
		cost += p.Costs[x.Choices[i]]
	}
}

// ---------- scopes ----------

func vectors(n int, vals []int) []partSpec {
	if n == 0 {
		return []partSpec{{}}
	}
	var out []partSpec
	for _, rest := range vectors(n-1, vals) {
		for _, v := range vals {
			out = append(out, append(partSpec{v}, rest...))
		}
	}
	return out
}

// alphabet of feature kinds for n targets
func alphabet(n int, rich bool) []featSpec {
	a := []featSpec{{Kind: "N"}}
	all := vectors(n, []int{0, 1, 2})
	if !rich {
		all = reduced(n)
	}
	for _, v := range all {
		a = append(a, featSpec{Kind: "P", Parts: []partSpec{v}})
	}
	for _, v := range all {
		a = append(a, featSpec{Kind: "M", Parts: []partSpec{v}})
	}
	red := reduced(n)
	for _, v := range red {
		for _, w := range red {
			a = append(a, featSpec{Kind: "M", Parts: []partSpec{v, w}})
		}
	}
	return a
}

// reduced outcome vectors: all kept, all dropped, first split others dropped, first dropped others split
func reduced(n int) []partSpec {
	mk := func(first, rest int) partSpec {
		v := make(partSpec, n)
		for i := range v {
			v[i] = rest
		}
		v[0] = first
		return v
	}
	out := []partSpec{mk(1, 1), mk(0, 0), mk(2, 0), mk(0, 2)}
	if n == 1 {
		out = []partSpec{{1}, {0}, {2}}
	}
	return out
}

func streams(alpha []featSpec, maxLen int) [][]featSpec {
	out := [][]featSpec{{}}
	level := [][]featSpec{{}}
	for l := 1; l <= maxLen; l++ {
		var next [][]featSpec
		for _, s := range level {
			for _, a := range alpha {
				next = append(next, append(append([]featSpec{}, s...), a))
			}
		}
		out = append(out, next...)
		level = next
	}
	return out
}

type scope struct {
	Name    string
	Targets int
	Streams [][]featSpec
	Bound   int
	Slow    bool
	Strict  bool // every non-default alternative is a deviation (not only preemptions / map orders)
	IDs     []int // tile matrix ids of the targets (ascending); default tmIDsFor(Targets)
	Async   bool  // source with a goroutine of its own (see scenario.Async)
}

func (sc scope) ids() []int {
	if len(sc.IDs) > 0 {
		return sc.IDs
	}
	return tmIDsFor(sc.Targets)
}

func tmIDsFor(n int) []int {
	ids := []int{3, 5, 8, 11, 14, 15, 16, 17, 18, 19, 20, 21}
	return ids[:n]
}

// typeAlphabet: every non-polygon geometry type plus one polygon that is kept everywhere
func typeAlphabet(n int) []featSpec {
	var a []featSpec
	for t := 0; t < nonPolygonTypes; t++ {
		a = append(a, featSpec{Kind: "N", T: t})
	}
	kept := make(partSpec, n)
	for i := range kept {
		kept[i] = 1
	}
	return append(a, featSpec{Kind: "P", Parts: []partSpec{kept}})
}

func scopesC10(thorough bool) []scope {
	if thorough {
		return []scope{
			{Name: "geometry types: N=2 len<=3, <=1 preemption", Targets: 2, Streams: streams(typeAlphabet(2), 3), Bound: 1},
			{Name: "N=1 len<=3 full alphabet, <=2 preemptions", Targets: 1, Streams: streams(alphabet(1, true), 3), Bound: 2},
			{Name: "N=2 len<=2 full alphabet, <=2 preemptions", Targets: 2, Streams: streams(alphabet(2, true), 2), Bound: 2},
			{Name: "N=3 len<=2 reduced alphabet, <=1 preemption", Targets: 3, Streams: streams(alphabet(3, false), 2), Bound: 1},
			// largest scope last: a deadline cuts only this one short
			{Name: "N=2 len<=3 reduced alphabet, <=1 preemption", Targets: 2, Streams: streams(alphabet(2, false), 3), Bound: 1},
		}
	}
	return []scope{
		{Name: "geometry types: N=2 len<=2, <=1 deviation", Targets: 2, Streams: streams(typeAlphabet(2), 2), Bound: 1, Strict: true},
		{Name: "N=1 len<=3 full alphabet, <=1 deviation", Targets: 1, Streams: streams(alphabet(1, true), 3), Bound: 1, Strict: true},
		{Name: "N=2 len<=2 full alphabet, <=1 deviation", Targets: 2, Streams: streams(alphabet(2, true), 2), Bound: 1, Strict: true},
		{Name: "N=3 len<=2 reduced alphabet, <=1 deviation", Targets: 3, Streams: streams(alphabet(3, false), 2), Bound: 1, Strict: true},
		{Name: "N=2 len<=1 full alphabet, <=1 preemption", Targets: 2, Streams: streams(alphabet(2, true), 1), Bound: 1},
		// other id sets: id 0 (the zero value of an id) and a negative id (CDB1GlobalGrid has them) among the targets
		{Name: "ids {0,7}: N=2 len<=2 full alphabet, <=1 deviation", Targets: 2, IDs: []int{0, 7}, Streams: streams(alphabet(2, true), 2), Bound: 1, Strict: true},
		{Name: "ids {-3,0,4}: N=3 len<=2 reduced alphabet, default schedule", Targets: 3, IDs: []int{-3, 0, 4}, Streams: streams(alphabet(3, false), 2), Bound: 0, Strict: true},
		// many targets, a table longer than any plausible buffer (one execution each)
		{Name: "L=130 N=9 default schedule", Targets: 9, Streams: longStreams(9, 130), Bound: 0, Strict: true},
	}
}

// C11 streams: all non-polygon, and mixed streams where some targets receive fewer features
func c11Streams(n, l int) [][]featSpec {
	var out [][]featSpec
	np := featSpec{Kind: "N"}
	mk := func(first, rest int) partSpec {
		v := make(partSpec, n)
		for i := range v {
			v[i] = rest
		}
		v[0] = first
		return v
	}
	for k := 0; k <= l; k++ {
		s := make([]featSpec, k)
		for i := range s {
			s[i] = np
		}
		out = append(out, s)
	}
	if l >= 1 {
		kinds := []featSpec{
			{Kind: "P", Parts: []partSpec{mk(1, 0)}}, // only the first target gets it
			{Kind: "P", Parts: []partSpec{mk(0, 1)}}, // every target but the first
			{Kind: "P", Parts: []partSpec{mk(0, 0)}}, // nobody
			{Kind: "M", Parts: []partSpec{mk(2, 0), mk(0, 1)}},
		}
		for _, kd := range kinds {
			for pos := 0; pos < l; pos++ {
				s := make([]featSpec, l)
				for i := range s {
					s[i] = np
				}
				s[pos] = kd
				out = append(out, s)
			}
			// a stream consisting only of this feature kind
			s := make([]featSpec, l)
			for i := range s {
				s[i] = kd
			}
			out = append(out, s)
		}
	}
	return out
}

func scopesC11(thorough bool) []scope {
	if thorough {
		return []scope{
			{Name: "L<=3 N=1 all schedules", Targets: 1, Streams: c11Streams(1, 3), Bound: -1, Slow: true},
			{Name: "L<=2 N=2 all schedules", Targets: 2, Streams: c11Streams(2, 2), Bound: -1, Slow: true},
			{Name: "L<=3 N=2 <=3 preemptions", Targets: 2, Streams: c11Streams(2, 3), Bound: 3, Slow: true},
			{Name: "L<=2 N=4 <=1 preemption", Targets: 4, Streams: c11Streams(4, 2), Bound: 1},
			{Name: "L<=1 N=5 <=1 preemption", Targets: 5, Streams: c11Streams(5, 1), Bound: 1},
			{Name: "L=40 N=1 <=2 deviations", Targets: 1, Streams: longStreams(1, 40), Bound: 2, Strict: true},
			{Name: "L=40 N=3 <=1 deviation", Targets: 3, Streams: longStreams(3, 40), Bound: 1, Strict: true},
			{Name: "async source: L<=3 N=1 all schedules", Targets: 1, Streams: c11Streams(1, 3), Bound: -1, Slow: true, Async: true},
			{Name: "async source: L<=2 N=2 <=2 preemptions", Targets: 2, Streams: c11Streams(2, 2), Bound: 2, Slow: true, Async: true},
			{Name: "L=130 N=9 default schedule", Targets: 9, Streams: longStreams(9, 130), Bound: 0, Strict: true},
			{Name: "L=260 N=12 default schedule", Targets: 12, Streams: longStreams(12, 260)[:1], Bound: 0, Strict: true},
			{Name: "L=4 N=3 <=1 preemption", Targets: 3, Streams: c11Streams(3, 4), Bound: 1},
			{Name: "L<=3 N=3 <=1 preemption", Targets: 3, Streams: c11Streams(3, 3), Bound: 1},
			// largest scopes last: the deadline cuts only these short (the evidence says how far they got)
			{Name: "L<=2 N=3 <=2 preemptions", Targets: 3, Streams: c11Streams(3, 2), Bound: 2, Slow: true},
			{Name: "L<=3 N=3 <=2 preemptions", Targets: 3, Streams: c11Streams(3, 3), Bound: 2},
		}
	}
	return []scope{
		{Name: "L<=2 N=1 all schedules", Targets: 1, Streams: c11Streams(1, 2), Bound: -1, Slow: true},
		{Name: "L<=1 N=2 all schedules", Targets: 2, Streams: c11Streams(2, 1), Bound: -1, Slow: true},
		{Name: "L<=2 N=2 <=2 preemptions", Targets: 2, Streams: c11Streams(2, 2), Bound: 2, Slow: true},
		{Name: "L<=1 N=3 <=1 preemption", Targets: 3, Streams: c11Streams(3, 1), Bound: 1},
		{Name: "L<=2 N=3 <=2 deviations", Targets: 3, Streams: c11Streams(3, 2), Bound: 2, Strict: true},
		{Name: "L<=2 N=4 <=1 deviation", Targets: 4, Streams: c11Streams(4, 2), Bound: 1, Strict: true},
		{Name: "L<=1 N=5 <=1 deviation", Targets: 5, Streams: c11Streams(5, 1), Bound: 1, Strict: true},
		// long streams (a target lagging behind by more than a typical buffer), few deviations
		{Name: "L=20 N=1 <=1 deviation", Targets: 1, Streams: longStreams(1, 20), Bound: 1, Strict: true},
		{Name: "L=20 N=2 default schedule", Targets: 2, Streams: longStreams(2, 20), Bound: 0, Strict: true},
		// a source that hands its channel to a goroutine of its own and returns from ReadFeatures at once
		{Name: "async source: L<=2 N=1 all schedules", Targets: 1, Streams: c11Streams(1, 2), Bound: -1, Slow: true, Async: true},
		{Name: "async source: L<=2 N=2 <=1 preemption", Targets: 2, Streams: c11Streams(2, 2), Bound: 1, Slow: true, Async: true},
		// many targets and a table longer than any plausible buffer: one execution (a pool of writers smaller than the
		// number of targets, or a bounded backlog, shows as a deadlock on the default schedule already)
		{Name: "L=130 N=9 default schedule", Targets: 9, Streams: longStreams(9, 130), Bound: 0, Strict: true},
		{Name: "L=260 N=12 default schedule", Targets: 12, Streams: longStreams(12, 260)[:1], Bound: 0, Strict: true},
	}
}

// longStreams: streams of exactly l features: all non-polygons, and polygons alternately kept by the first target only / by all
func longStreams(n, l int) [][]featSpec {
	mk := func(first, rest int) partSpec {
		v := make(partSpec, n)
		for i := range v {
			v[i] = rest
		}
		v[0] = first
		return v
	}
	a := make([]featSpec, l)
	b := make([]featSpec, l)
	for i := range a {
		a[i] = featSpec{Kind: "N"}
		if i%2 == 0 {
			b[i] = featSpec{Kind: "P", Parts: []partSpec{mk(1, 0)}}
		} else {
			b[i] = featSpec{Kind: "P", Parts: []partSpec{mk(1, 1)}}
		}
	}
	return [][]featSpec{a, b}
}

// ---------- driver ----------

type replayCase struct {
	Scope   string     `json:"scope"`
	Stream  []featSpec `json:"stream"`
	Targets int        `json:"targets"`
	IDs     []int      `json:"tile_matrix_ids,omitempty"`
	Async   bool       `json:"async_source,omitempty"`
	Slow    bool       `json:"slow_snapping"`
	Choices []int      `json:"choices"`
	Trace   []string   `json:"trace"`
	Problem string     `json:"problem"`
}

type scopeRep struct {
	Scope      string           `json:"scope"`
	Scenarios  int64            `json:"scenarios"`
	Stats      stats            `json:"stats"`
	Exhaustive bool             `json:"exhaustive"`
	Outcomes   map[string]int64 `json:"distinct_outcomes_per_scenario_histogram"`
}

type shardOut struct {
	Reports []scopeRep `json:"reports"`
	Samples []any      `json:"samples"`
}

func main() {
	log.SetOutput(io.Discard)
	if len(os.Args) < 2 {
		fmt.Fprintln(os.Stderr, "usage: pipemc C10|C11|race")
		os.Exit(2)
	}
	id := os.Args[1]
	if id == "race" {
		racePass()
		return
	}
	if id == "free" {
		freePass()
		return
	}
	r := ev.New(id)
	if rp := os.Getenv("VERIF_REPLAY"); rp != "" {
		replay(r, id, rp)
		return
	}
	var scopes []scope
	if id == "C10" {
		scopes = scopesC10(r.Thorough())
	} else {
		scopes = scopesC11(r.Thorough())
	}
	if r.IsShard() {
		sched.Install()
		var so shardOut
		for _, sc := range scopes {
			rep := scopeRep{Scope: sc.Name, Exhaustive: true, Outcomes: map[string]int64{}}
			rep.Stats.Outcomes = map[string]int64{}
			for si, stream := range sc.Streams {
				if si%r.ShardN != r.ShardI {
					continue
				}
				if r.Expired() {
					rep.Exhaustive = false
					break
				}
				scn := &scenario{Stream: stream, Targets: sc.Targets, tmIDs: sc.ids(), Async: sc.Async}
				rep.Scenarios++
				perScenario := map[string]bool{}
				reported := map[string]bool{}
				sched.Strict = sc.Strict
				e := &explorer{sc: scn, bound: sc.Bound, slow: sc.Slow, st: &rep.Stats, expired: r.Expired}
				e.onExec = func(o *outcome, choices []int) bool {
					content, liveness := o.judge()
					probs := content
					if id == "C11" {
						probs = liveness
					}
					// observable outcome of this execution (vacuity guard: a Kahn network has one)
					oc := fmt.Sprint(o.x.Err != "")
					for _, t := range o.targets {
						oc += fmt.Sprint(fids(t.atHandle), t.flushed)
					}
					perScenario[oc] = true
					if len(o.targets) > 0 && o.returned {
						// was the last feature delivered to the target that had handled the least at that time?
						rep.Stats.LastToSlowest++
					}
					for _, p := range probs {
						if reported[p.Sig] {
							continue
						}
						reported[p.Sig] = true
						confirmReplay(scn, choices, sc.Slow, id, p.Sig)
						r.Violation(p.Sig, fmt.Sprintf("stream %v, %d targets: %s", stream, sc.Targets, p.What),
							replayCase{Scope: sc.Name, Stream: stream, Targets: sc.Targets, IDs: sc.ids(), Async: sc.Async, Slow: sc.Slow, Choices: choices, Trace: o.x.Trace, Problem: p.What})
					}
					return true
				}
				e.run()
				if e.stop {
					rep.Exhaustive = false
				}
				rep.Outcomes[fmt.Sprint(len(perScenario))]++
				if len(so.Samples) < 1 && rep.Scenarios > 2 {
					o := execute(scn, nil, sc.Slow)
					so.Samples = append(so.Samples, map[string]any{"scope": sc.Name, "stream": fmt.Sprint(stream), "targets": sc.Targets, "default_schedule_trace": o.x.Trace})
				}
			}
			so.Reports = append(so.Reports, rep)
		}
		r.FinishShard(so)
	}
	os.Setenv("VERIF_SHARD_GOMAXPROCS", "1") // cooperative hand-offs are fastest on one P
	parts := r.RunShards(runtime.NumCPU())
	reps := make([]scopeRep, len(scopes))
	var samples []any
	var states, trans, execs, multi, points int64
	exhaustive := true
	for _, raw := range parts {
		var so shardOut
		if err := json.Unmarshal(raw, &so); err != nil {
			ev.HarnessError("bad shard data: %v", err)
		}
		samples = append(samples, so.Samples...)
		for i, rep := range so.Reports {
			t := &reps[i]
			if t.Scope == "" {
				t.Scope, t.Exhaustive, t.Outcomes = rep.Scope, true, map[string]int64{}
			}
			t.Scenarios += rep.Scenarios
			t.Stats.Execs += rep.Stats.Execs
			t.Stats.States += rep.Stats.States
			t.Stats.Transitions += rep.Stats.Transitions
			t.Stats.MultiEnabled += rep.Stats.MultiEnabled
			t.Stats.Points += rep.Stats.Points
			t.Stats.Pruned += rep.Stats.Pruned
			t.Exhaustive = t.Exhaustive && rep.Exhaustive
			for k, v := range rep.Outcomes {
				t.Outcomes[k] += v
			}
		}
		if len(so.Reports) < len(scopes) {
			exhaustive = false
		}
	}
	var scenarios int64
	for _, t := range reps {
		states += t.Stats.States
		trans += t.Stats.Transitions
		execs += t.Stats.Execs
		multi += t.Stats.MultiEnabled
		points += t.Stats.Points
		scenarios += t.Scenarios
		exhaustive = exhaustive && t.Exhaustive
		fmt.Fprintf(os.Stderr, "  scope %-45s scenarios=%d executions=%d states=%d transitions=%d pruned=%d outcomes/scenario=%v exhaustive=%v\n", t.Scope, t.Scenarios, t.Stats.Execs, t.Stats.States, t.Stats.Transitions, t.Stats.Pruned, t.Outcomes, t.Exhaustive)
	}
	if len(samples) > 4 {
		samples = samples[:4]
	}
	if len(samples) == 0 {
		samples = append(samples, "none")
	}
	cov := map[string]any{
		"states": states, "transitions": trans, "samples": samples, "evaluations": execs, "distinct_nontrivial": scenarios,
		"executions": execs, "scenarios": scenarios, "scheduling_points": points, "points_with_more_than_one_enabled_transition": multi,
		"exhaustive": exhaustive, "scopes": reps,
		"rule": "scenario = (feature stream over the alphabet, number of targets, outcome table); per scenario a depth-first search over schedules of the instrumented real processing package: states = distinct scheduler states (per-goroutine operation history hash + pending operation, channel and wait-group model), transitions = scheduling decisions; iterative bounding on deviations (preemptions and non-default map orders), -1 = all schedules with state pruning; non-trivial = every scenario (each has >= 4 goroutines and several enabled transitions)",
	}
	traces := int64(0)
	if ri := os.Getenv("VERIF_RACE_RESULT"); ri != "" {
		b, err := os.ReadFile(ri)
		if err == nil {
			var rr map[string]any
			if json.Unmarshal(b, &rr) == nil {
				cov["free_running_pass"] = rr
				if v, ok := rr["outcomes_matching_reference"].(float64); ok {
					traces = int64(v)
				}
				if v, ok := rr["violations"].(float64); ok && v > 0 {
					for _, m := range rr["messages"].([]any) {
						r.Violation("free-running:"+fmt.Sprint(rr["class"]), fmt.Sprint(m), rr)
					}
				}
			}
		}
	}
	if fi := os.Getenv("VERIF_FREE_RESULT"); fi != "" && id == "C10" {
		b, err := os.ReadFile(fi)
		if err != nil {
			ev.HarnessError("free-running conformance pass left no result: %v", err)
		}
		var rr map[string]any
		if err := json.Unmarshal(b, &rr); err != nil {
			ev.HarnessError("free-running conformance result unreadable: %v", err)
		}
		cov["free_running_conformance"] = rr
		if v, ok := rr["outcomes_matching_reference"].(float64); ok {
			traces = int64(v)
		}
		if v, ok := rr["violations"].(float64); ok && v > 0 {
			for _, m := range rr["messages"].([]any) {
				r.Violation("free-running:"+fmt.Sprint(rr["class"]), fmt.Sprint(m), rr)
			}
		}
	}
	cov["traces_validated_against_impl"] = traces
	r.Assumptions = []string{"the channel / wait-group enabledness model of engine/sched (a wrong model shows up as a harness error, never as a verdict)", "instrumenter rewrites; per-goroutine determinism given its operation history (no other shared memory; checked by the separate free-running -race pass)"}
	r.Finish(cov)
}

// confirmReplay re-runs the recorded schedule twice and requires the same problem both times
func confirmReplay(scn *scenario, choices []int, slow bool, id, sig string) {
	for i := 0; i < 2; i++ {
		o := execute(scn, choices, slow)
		if o.x.Harness != "" {
			ev.HarnessError("replay: %s", o.x.Harness)
		}
		content, liveness := o.judge()
		probs := content
		if id == "C11" {
			probs = liveness
		}
		found := false
		for _, p := range probs {
			if p.Sig == sig {
				found = true
			}
		}
		if !found {
			ev.HarnessError("violation %s of %v did not reproduce when its schedule %v was replayed (uncontrolled nondeterminism)", sig, scn.Stream, choices)
		}
	}
}

func replay(r *ev.Run, id, path string) {
	b, err := os.ReadFile(path)
	if err != nil {
		ev.HarnessError("%v", err)
	}
	var f struct {
		Case replayCase `json:"case"`
	}
	if err := json.Unmarshal(b, &f); err != nil {
		ev.HarnessError("%v", err)
	}
	sched.Install()
	c := f.Case
	scn := &scenario{Stream: c.Stream, Targets: c.Targets, tmIDs: tmIDsFor(c.Targets)}
	if len(c.IDs) > 0 {
		scn.tmIDs = c.IDs
	}
	scn.Async = c.Async
	o := execute(scn, c.Choices, c.Slow)
	if o.x.Harness != "" {
		ev.HarnessError("%s", o.x.Harness)
	}
	content, liveness := o.judge()
	probs := content
	if id == "C11" {
		probs = liveness
	}
	fmt.Println("trace:", o.x.Trace)
	for _, p := range probs {
		r.Violation(p.Sig, p.What, c)
	}
	fmt.Printf("replay of %s: %d problem(s)\n", path, len(probs))
	r.Exit()
}

var _ = time.Now
