//go:build instr

package main

import (
	"encoding/json"
	"fmt"
	"os"
	"path/filepath"
	"runtime"
	"time"

	"github.com/go-spatial/geom"
	"github.com/pdok/texel/processing"
	tgpkg "github.com/pdok/texel/processing/gpkg"
	"github.com/pdok/texel/snap"
	"github.com/pdok/texel/tms20"
	_ "verif/engine/spl"
)

// realGpkgPass drives the un-instrumented pipeline with the real GeoPackage source and
// targets (driver stub) so that the race detector sees the accesses of the real writers.
func realGpkgPass(src, work string) (int, error) {
	runtime.GOMAXPROCS(16)
	tms, err := tms20.LoadEmbeddedTileMatrixSet("NetherlandsRDNewQuad")
	if err != nil {
		return 0, err
	}
	runs := 0
	for _, ids := range [][]int{{5, 8}, {5, 8, 10}} {
		for _, page := range []int{1, 2, 1000} {
			for rep := 0; rep < 3; rep++ {
				source := tgpkg.SourceGeopackage{}
				source.Init(src)
				tables := source.GetTableInfo()
				targets := map[int]processing.Target{}
				var real []*tgpkg.TargetGeopackage
				for _, id := range ids {
					p := filepath.Join(work, fmt.Sprintf("race-target-%d.gpkg", id))
					_ = os.Remove(p)
					t := &tgpkg.TargetGeopackage{}
					t.Init(p, page)
					if err := t.CreateTables(tables); err != nil {
						return runs, err
					}
					real = append(real, t)
					targets[id] = t
				}
				for _, table := range tables {
					source.Table = table
					for _, t := range real {
						t.Table = table
					}
					processing.ProcessFeatures(source, targets, func(p geom.Polygon, tmIDs []int) map[int][]geom.Polygon {
						return snap.SnapPolygon(p, tms, tmIDs, snap.Config{KeepPointsAndLines: rep%2 == 0})
					})
				}
				for _, t := range real {
					t.Close()
				}
				source.Close()
				runs++
			}
		}
	}
	return runs, nil
}

// racePass: the same harness bodies, free running (no scheduler; the processing
// package is NOT instrumented in this build) under the race detector.  Sampled
// and supplementary: it covers what a cooperative scheduler cannot produce
// (unsynchronised accesses, real parallelism, long streams).
func racePass() {
	type result struct {
		Class    string   `json:"class"`
		Runs     int      `json:"runs"`
		Matching int      `json:"outcomes_matching_reference"`
		Viol     int      `json:"violations"`
		Messages []string `json:"messages"`
		Configs  []string `json:"configurations"`
	}
	res := result{Class: "mismatch"}
	reps := 20
	lengths := []int{0, 1, 2, 7, 50, 200}
	for _, procs := range []int{1, 2, 16} {
		runtime.GOMAXPROCS(procs)
		for n := 1; n <= 5; n++ {
			for _, l := range lengths {
				res.Configs = append(res.Configs, fmt.Sprintf("GOMAXPROCS=%d targets=%d length=%d x%d", procs, n, l, reps))
				for rep := 0; rep < reps; rep++ {
					// mixed stream: non-polygons, polygons kept by some targets only, multipolygons
					mk := func(first, rest int) partSpec {
						v := make(partSpec, n)
						for i := range v {
							v[i] = rest
						}
						v[0] = first
						return v
					}
					var stream []featSpec
					for i := 0; i < l; i++ {
						switch (i + rep) % 4 {
						case 0:
							stream = append(stream, featSpec{Kind: "N"})
						case 1:
							stream = append(stream, featSpec{Kind: "P", Parts: []partSpec{mk(1, 0)}})
						case 2:
							stream = append(stream, featSpec{Kind: "M", Parts: []partSpec{mk(2, 1), mk(0, 1)}})
						case 3:
							stream = append(stream, featSpec{Kind: "P", Parts: []partSpec{mk(0, 2)}})
						}
					}
					scn := &scenario{Stream: stream, Targets: n, tmIDs: tmIDsFor(n)}
					table := "table-1"
					tm := map[int]processing.Target{}
					var targets []*fakeTarget
					for _, id := range scn.tmIDs {
						t := &fakeTarget{tm: id, table: &table}
						targets = append(targets, t)
						tm[id] = t
					}
					src := &fakeSource{feats: scn.build()}
					done := make(chan struct{})
					before := runtime.NumGoroutine()
					go func() {
						processing.ProcessFeatures(src, tm, scn.snapFunc(rep%2 == 0))
						close(done)
					}()
					select {
					case <-done:
					case <-time.After(120 * time.Second):
						res.Viol++
						res.Class = "timeout"
						res.Messages = append(res.Messages, fmt.Sprintf("free run did not return within 120 s: targets=%d length=%d GOMAXPROCS=%d", n, l, procs))
						out, _ := json.Marshal(res)
						_ = os.WriteFile(os.Getenv("VERIF_RACE_RESULT"), out, 0o644)
						os.Exit(0)
					}
					res.Runs++
					ok := true
					for ti, t := range targets {
						// reading these fields right after return is exactly what main.go's table switch does
						if !t.flushed {
							ok = false
							res.Messages = append(res.Messages, fmt.Sprintf("returned before target %d finished (targets=%d length=%d GOMAXPROCS=%d)", ti, n, l, procs))
							break
						}
						if what := diffRecs(scn.reference(ti), t.atHandle); what != "" {
							ok = false
							res.Messages = append(res.Messages, fmt.Sprintf("target %d: %s (targets=%d length=%d GOMAXPROCS=%d)", ti, what, n, l, procs))
							break
						}
					}
					table = "table-2"
					if ok {
						res.Matching++
					} else {
						res.Viol++
					}
					// goroutine leak: give stragglers a moment, then compare
					for i := 0; i < 20000 && runtime.NumGoroutine() > before; i++ { // up to 20 s, left as soon as the count is back
						time.Sleep(time.Millisecond)
					}
					if g := runtime.NumGoroutine(); g > before {
						res.Viol++
						res.Class = "goroutine-leak"
						res.Messages = append(res.Messages, fmt.Sprintf("%d goroutine(s) left behind after return (targets=%d length=%d)", g-before, n, l))
					}
					if len(res.Messages) > 5 {
						res.Messages = res.Messages[:5]
					}
				}
			}
		}
	}
	if src := os.Getenv("VERIF_RACE_SOURCE"); src != "" {
		n, err := realGpkgPass(src, os.Getenv("VERIF_WORK"))
		res.Runs += n
		res.Matching += n
		res.Configs = append(res.Configs, fmt.Sprintf("real SourceGeopackage -> real snapping -> %d runs with 2..3 real TargetGeopackages (page sizes 1, 2, 1000), GOMAXPROCS 16", n))
		if err != nil {
			res.Viol++
			res.Messages = append(res.Messages, err.Error())
		}
	}
	if res.Viol == 0 {
		res.Class = "none"
	}
	out, _ := json.Marshal(res)
	if err := os.WriteFile(os.Getenv("VERIF_RACE_RESULT"), out, 0o644); err != nil {
		fmt.Fprintln(os.Stderr, err)
		os.Exit(2)
	}
	fmt.Fprintf(os.Stderr, "  free-running pass: %d runs, %d matching the reference, %d violations\n", res.Runs, res.Matching, res.Viol)
}

// freePass: conformance of the instrumentation for C10.  Every scenario of the C10 scopes is also run on the
// UN-instrumented processing package, free running (no scheduler, pass-through runtime), once at GOMAXPROCS 1 and
// once at 16, and what each target received is compared with the same sequential reference.  The explorer judges the
// instrumented copy of the code; this pass shows that the real code produces the explored outcome (a rewrite that
// changes the meaning of the code - or repairs a defect in the copy - is caught here).
func freePass() {
	type result struct {
		Class    string   `json:"class"`
		Runs     int      `json:"runs"`
		Matching int      `json:"outcomes_matching_reference"`
		Viol     int      `json:"violations"`
		Messages []string `json:"messages"`
		Scens    int      `json:"scenarios"`
	}
	res := result{Class: "mismatch"}
	thorough := os.Getenv("VERIF_TIER") == "thorough"
	for _, sc := range scopesC10(thorough) {
		for _, stream := range sc.Streams {
			res.Scens++
			for _, procs := range []int{1, 16} {
				runtime.GOMAXPROCS(procs)
				scn := &scenario{Stream: stream, Targets: sc.Targets, tmIDs: sc.ids()}
				table := "table-1"
				tm := map[int]processing.Target{}
				var targets []*fakeTarget
				for _, id := range scn.tmIDs {
					t := &fakeTarget{tm: id, table: &table}
					targets = append(targets, t)
					tm[id] = t
				}
				src := &fakeSource{feats: scn.build()}
				done := make(chan struct{})
				go func() {
					processing.ProcessFeatures(src, tm, scn.snapFunc(procs == 1))
					close(done)
				}()
				select {
				case <-done:
				case <-time.After(120 * time.Second):
					res.Viol++
					res.Class = "timeout"
					res.Messages = append(res.Messages, fmt.Sprintf("free run did not return within 120 s: stream %v targets=%d GOMAXPROCS=%d", stream, sc.Targets, procs))
					out, _ := json.Marshal(res)
					_ = os.WriteFile(os.Getenv("VERIF_FREE_RESULT"), out, 0o644)
					os.Exit(0)
				}
				res.Runs++
				ok := true
				for ti, t := range targets {
					what := ""
					if !t.flushed {
						what = "returned before the target finished"
					} else if d := diffRecs(scn.reference(ti), t.atHandle); d != "" {
						what = d
					} else if d := diffRecs(scn.reference(ti), t.atFlush); d != "" {
						what = "at flush time: " + d
					}
					if what != "" {
						ok = false
						if len(res.Messages) < 5 {
							res.Messages = append(res.Messages, fmt.Sprintf("un-instrumented code, stream %v, %d targets, GOMAXPROCS=%d, target %d: %s", stream, sc.Targets, procs, ti, what))
						}
						break
					}
				}
				if ok {
					res.Matching++
				} else {
					res.Viol++
				}
			}
		}
	}
	if res.Viol == 0 {
		res.Class = "none"
	}
	out, _ := json.Marshal(res)
	if err := os.WriteFile(os.Getenv("VERIF_FREE_RESULT"), out, 0o644); err != nil {
		fmt.Fprintln(os.Stderr, err)
		os.Exit(2)
	}
	fmt.Fprintf(os.Stderr, "  free-running conformance: %d scenarios, %d runs, %d matching the reference, %d violations\n", res.Scens, res.Runs, res.Matching, res.Viol)
}
