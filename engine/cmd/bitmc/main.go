// bitmc decides C17: exhaustive enumeration of pixel addresses (all pairs of
// w-bit values in every placement of the scope, all 1/2-bit patterns, boundary
// values) through the real morton.ToZ / morton.FromZ against a bit-loop
// reference; the parent/child relation of the quadtree is the transition
// relation that is walked for every state.
package main

import (
	"encoding/json"
	"fmt"
	"math"
	"os"
	"runtime"
	"sync"
	"sync/atomic"

	"github.com/pdok/texel/morton"
	"github.com/pdok/texel/pointindex"
	"github.com/pdok/texel/tms20"
	"verif/engine/ev"
)

// refZ is the reference: bit i of x goes to bit 2i, bit i of y to bit 2i+1.
func refZ(x, y uint64) uint64 {
	var z uint64
	for i := uint(0); i < 32; i++ {
		z |= (x >> i & 1) << (2 * i)
		z |= (y >> i & 1) << (2*i + 1)
	}
	return z
}

var spread [1 << 16]uint64 // spread[a] = refZ(a, 0), built by the bit loop

func fastRef(x, y uint64) uint64 {
	return spread[x&0xffff] | spread[x>>16&0xffff]<<32 | (spread[y&0xffff]|spread[y>>16&0xffff]<<32)<<1
}

type vio struct {
	X, Y uint64
	What string
}

var (
	run    *ev.Run
	states atomic.Int64
	trans  atomic.Int64
	once   sync.Map
)

func report(x, y uint64, what string, sig string) {
	if _, dup := once.LoadOrStore(sig, true); dup {
		// one artefact per signature and (first) input is enough; still counted
	}
	run.Violation(sig, fmt.Sprintf("x=%#x y=%#x: %s", x, y, what), vio{x, y, what})
}

// checkOne runs every oracle clause on one address.
func checkOne(x, y uint64) (t int64) {
	fits := x <= math.MaxUint32 && y <= math.MaxUint32
	z, ok := morton.ToZ(uint(x), uint(y))
	t++
	if ok != fits {
		report(x, y, fmt.Sprintf("ok=%v but fits-in-32-bits=%v", ok, fits), "encodable-flag")
		return
	}
	if !fits {
		// must be reported as not encodable; MustToZ must refuse as well
		func() {
			defer func() {
				if recover() == nil {
					report(x, y, "MustToZ did not refuse an address wider than 32 bits", "mustToZ-accepts-wide")
				}
			}()
			morton.MustToZ(uint(x), uint(y))
		}()
		return
	}
	want := fastRef(x, y)
	if uint64(z) != want {
		report(x, y, fmt.Sprintf("ToZ=%#x want %#x", z, want), "toZ-value")
		return
	}
	bx, by := morton.FromZ(z)
	t++
	if uint64(bx) != x || uint64(by) != y {
		report(x, y, fmt.Sprintf("FromZ(ToZ)=(%#x,%#x)", bx, by), "fromZ-inverse")
	}
	// transition to the parent
	pz, _ := morton.ToZ(uint(x>>1), uint(y>>1))
	t++
	if pz != z>>2 {
		report(x, y, fmt.Sprintf("parent key %#x != key>>2 %#x", pz, z>>2), "parent-key")
	}
	// transitions to the four children (where they still fit)
	if x <= math.MaxUint32>>1 && y <= math.MaxUint32>>1 {
		for q := uint64(0); q < 4; q++ {
			cz, cok := morton.ToZ(uint(2*x+q&1), uint(2*y+q>>1))
			t++
			if !cok || uint64(cz) != 4*uint64(z)+q {
				report(x, y, fmt.Sprintf("child %d key %#x ok=%v want %#x", q, cz, cok, 4*uint64(z)+q), "child-key")
			}
		}
	}
	return
}

// indexKeys: the keys as the point index uses them.  For every accepted built-in set and every id whose pixel grid
// is wider than 32 bits (and the last id that still fits), pixel addresses around the 32-bit boundary are inserted by
// their address (PointIndex.InsertCoord): an address with a coordinate >= 2^32 must be reported (error or panic), never
// accepted; an address that fits must be accepted, and two such addresses inserted into one index must stay distinct
// (a short line inside either pixel snaps to that pixel's own centre).
func indexKeys() (states, trans int64) {
	type key struct {
		Set  string
		ID   int
		X, Y uint64
	}
	for _, name := range []string{"NetherlandsRDNewQuad", "WebMercatorQuad", "WorldMercatorWGS84Quad", "EuropeanETRS89_LAEAQuad", "NZTM2000Quad", "UPSArcticWGS84Quad", "UPSAntarcticWGS84Quad"} {
		tms, err := tms20.LoadEmbeddedTileMatrixSet(name)
		if err != nil {
			ev.HarnessError("%s: %v", name, err)
		}
		if pointindex.IsQuadTree(tms) != nil {
			continue
		}
		maxID := 0
		for id := range tms.TileMatrices {
			if id > maxID {
				maxID = id
			}
		}
		tw := tms.TileMatrices[0].TileWidth
		for id := 0; id <= maxID; id++ {
			level := uint(id) + uint(math.Log2(float64(tw))) + 4
			if level < 32 || level > 40 {
				continue
			}
			size := uint64(1) << level
			cand := map[uint64]bool{0: true, 1: true, size/2 - 1: true, size / 2: true, size - 1: true}
			for _, v := range []uint64{1<<32 - 1, 1 << 32, 1<<32 + 1, 1 << 33, 3 << 32, 1<<32 + 1<<31} {
				if v < size {
					cand[v] = true
				}
			}
			var vals []uint64
			for v := range cand {
				vals = append(vals, v)
			}
			insert := func(ix *pointindex.PointIndex, x, y uint64) (reported bool) {
				defer func() {
					if r := recover(); r != nil {
						reported = true
					}
				}()
				return ix.InsertCoord(int(x), int(y)) != nil
			}
			for _, x := range vals {
				for _, y := range vals {
					states++
					trans++
					ix, err := pointindex.FromTileMatrixSet(tms, id)
					if err != nil {
						ev.HarnessError("%s id %d: %v", name, id, err)
					}
					fits := x <= math.MaxUint32 && y <= math.MaxUint32
					rep := insert(ix, x, y)
					if !fits && !rep {
						run.Violation("index-accepts-unencodable-address", fmt.Sprintf("%s id %d (level %d): pixel address (%#x, %#x) does not fit in 32 bits per axis, yet PointIndex.InsertCoord accepted it without a report", name, id, level, x, y), key{name, id, x, y})
					}
					if fits && rep {
						run.Violation("index-rejects-encodable-address", fmt.Sprintf("%s id %d (level %d): pixel address (%#x, %#x) fits in 32 bits per axis and lies in the grid, yet inserting it is reported as an error", name, id, level, x, y), key{name, id, x, y})
					}
				}
			}
		}
	}
	return
}

func main() {
	run = ev.New("C17")
	if rp := os.Getenv("VERIF_REPLAY"); rp != "" {
		b, err := os.ReadFile(rp)
		if err != nil {
			ev.HarnessError("%v", err)
		}
		var f struct {
			Case vio `json:"case"`
		}
		if err := json.Unmarshal(b, &f); err != nil {
			ev.HarnessError("%v", err)
		}
		for a := uint64(0); a < 1<<16; a++ {
			spread[a] = refZ(a, 0)
		}
		checkOne(f.Case.X, f.Case.Y)
		fmt.Printf("replay of %s: %d problem(s)\n", rp, run.Violations())
		run.Exit()
	}
	for a := uint64(0); a < 1<<16; a++ {
		spread[a] = refZ(a, 0)
	}
	// self-check of the table decomposition against the plain bit loop
	for _, v := range [][2]uint64{{0xdeadbeef, 0x12345678}, {math.MaxUint32, 0}, {0, math.MaxUint32}, {0x80000001, 0x7ffffffe}} {
		if fastRef(v[0], v[1]) != refZ(v[0], v[1]) {
			ev.HarnessError("reference table decomposition wrong for %v", v)
		}
	}
	samples := &ev.Samples{N: 6}
	w := uint(12)
	shifts := []uint{0, 10, 20}
	if run.Thorough() {
		w = 16
		shifts = []uint{0, 16}
	}
	type job struct {
		sx, sy uint
		a      uint64
	}
	jobs := make(chan job, 1024)
	var wg sync.WaitGroup
	for i := 0; i < runtime.NumCPU(); i++ {
		wg.Add(1)
		go func() {
			defer wg.Done()
			var s, t int64
			for j := range jobs {
				x := j.a << j.sx
				for b := uint64(0); b < 1<<w; b++ {
					t += checkOne(x, b<<j.sy)
					s++
				}
			}
			states.Add(s)
			trans.Add(t)
		}()
	}
	placements := 0
	for _, sx := range shifts {
		for _, sy := range shifts {
			placements++
			for a := uint64(0); a < 1<<w; a++ {
				jobs <- job{sx, sy, a}
			}
		}
	}
	close(jobs)
	wg.Wait()
	nPairs := states.Load()

	// patterns: all values with one or two bits set, their complements (within 32
	// bits and within 64 bits), boundary values; every pair of patterns.
	pat := map[uint64]bool{0: true, math.MaxUint32: true, 1 << 32: true, 1<<32 + 1: true, 1 << 63: true, math.MaxUint64: true, math.MaxUint32 - 1: true}
	for i := uint(0); i < 64; i++ {
		pat[1<<i] = true
		pat[^(uint64(1)<<i)&math.MaxUint32] = true
		for j := i + 1; j < 64; j++ {
			pat[1<<i|1<<j] = true
		}
		if i < 32 {
			pat[^(uint64(1) << i)] = true
		}
	}
	var pats []uint64
	for p := range pat {
		pats = append(pats, p)
	}
	var s2, t2 int64
	var wg2 sync.WaitGroup
	ch := make(chan uint64, 64)
	for i := 0; i < runtime.NumCPU(); i++ {
		wg2.Add(1)
		go func() {
			defer wg2.Done()
			var s, t int64
			for x := range ch {
				for _, y := range pats {
					t += checkOne(x, y)
					s++
				}
			}
			atomic.AddInt64(&s2, s)
			atomic.AddInt64(&t2, t)
		}()
	}
	for _, x := range pats {
		ch <- x
	}
	close(ch)
	wg2.Wait()
	wide := 0
	for _, p := range pats {
		if p > math.MaxUint32 {
			wide++
		}
	}
	for _, v := range [][2]uint64{{5, 3}, {0xabc << 20, 0x123}, {math.MaxUint32, math.MaxUint32}, {1 << 32, 0}} {
		z, ok := morton.ToZ(uint(v[0]), uint(v[1]))
		samples.Add(map[string]any{"x": fmt.Sprintf("%#x", v[0]), "y": fmt.Sprintf("%#x", v[1]), "ToZ": fmt.Sprintf("%#x", z), "ok": ok})
	}
	is, it := indexKeys()
	run.Finish(map[string]any{
		"states":                        nPairs + s2 + is,
		"transitions":                   trans.Load() + t2 + it,
		"index_level_addresses":         is,
		"traces_validated_against_impl": 0,
		"samples":                       samples.L,
		"evaluations":                   nPairs + s2,
		"distinct_nontrivial":           nPairs + s2 - 1,
		"rule":                          fmt.Sprintf("state = pixel address (x,y); all pairs of %d-bit values a,b placed at shifts %v for x and for y (%d placements, %d pairs), plus all pairs of %d bit patterns (1-bit, 2-bit, complements, boundary values incl. %d wider than 32 bits); transitions = ToZ, FromZ, parent step and the four child steps evaluated per state; non-trivial = every address except (0,0); plus, through the point index itself (PointIndex.InsertCoord on every accepted built-in set at every id of level >= 32): addresses around the 32-bit boundary must be reported when they do not fit and accepted when they do", w, shifts, placements, nPairs, len(pats), wide),
		"exhaustive":                    true,
		"bound":                         fmt.Sprintf("width %d bits per half, %d placements; pattern pairs %d", w, placements, s2),
		"explanation":                   "the real morton.ToZ/FromZ are executed on every enumerated address; reference = bit loop",
	})
}
