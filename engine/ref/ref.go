// Package ref holds the reference models: exact integer planar predicates,
// the half-open-pixel edge router (C02), routed boundaries, visit counts.
// Written from the property texts; no floats, no quadtree.
package ref

import (
	"math/bits"
	"sort"
)

type P = [2]int64  // a point in integer units (lattice units or local fixed-point units)
type PX = [2]int64 // a pixel index (column, row)

func FloorDiv(a, b int64) int64 {
	q := a / b
	if (a%b != 0) && ((a < 0) != (b < 0)) {
		q--
	}
	return q
}

func Orient(a, b, c P) int {
	v := (b[0]-a[0])*(c[1]-a[1]) - (b[1]-a[1])*(c[0]-a[0])
	switch {
	case v > 0:
		return 1
	case v < 0:
		return -1
	}
	return 0
}

func min64(a, b int64) int64 {
	if a < b {
		return a
	}
	return b
}
func max64(a, b int64) int64 {
	if a > b {
		return a
	}
	return b
}

// OnSeg: c on closed segment ab, given collinear
func OnSeg(a, b, c P) bool {
	return min64(a[0], b[0]) <= c[0] && c[0] <= max64(a[0], b[0]) && min64(a[1], b[1]) <= c[1] && c[1] <= max64(a[1], b[1])
}

// SegsTouch: closed segments share at least one point
func SegsTouch(a, b, c, d P) bool {
	o1, o2, o3, o4 := Orient(a, b, c), Orient(a, b, d), Orient(c, d, a), Orient(c, d, b)
	if o1*o2 < 0 && o3*o4 < 0 {
		return true
	}
	return (o1 == 0 && OnSeg(a, b, c)) || (o2 == 0 && OnSeg(a, b, d)) || (o3 == 0 && OnSeg(c, d, a)) || (o4 == 0 && OnSeg(c, d, b))
}

// ProperCross: the two segments cross in their interiors (a single common
// point interior to both); touching and collinear overlap are not crossings.
func ProperCross(a, b, c, d P) bool {
	return Orient(a, b, c)*Orient(a, b, d) < 0 && Orient(c, d, a)*Orient(c, d, b) < 0
}

// Area2 is twice the signed area (positive = counter-clockwise).
func Area2(r []P) int64 {
	var s int64
	for i := range r {
		j := (i + 1) % len(r)
		s += r[i][0]*r[j][1] - r[j][0]*r[i][1]
	}
	return s
}

// FoldsBack: b->c runs back over a->b (or a->b over b->c): not a simple corner.
func FoldsBack(a, b, c P) bool {
	return Orient(a, b, c) == 0 && (OnSeg(a, b, c) || OnSeg(b, c, a))
}

// Simple: ring (no closing duplicate) is a simple closed curve with >= 3
// vertices; collinear pass-through vertices are allowed.
func Simple(r []P) bool {
	n := len(r)
	if n < 3 {
		return false
	}
	for i := 0; i < n; i++ {
		a, b := r[i], r[(i+1)%n]
		if a == b {
			return false
		}
		if FoldsBack(a, b, r[(i+2)%n]) {
			return false
		}
		for j := i + 2; j < n; j++ {
			if i == 0 && j == n-1 {
				continue
			}
			if SegsTouch(a, b, r[j], r[(j+1)%n]) {
				return false
			}
		}
	}
	return true
}

// PointInRing: +1 strictly inside, 0 on the boundary, -1 outside (exact; works
// for any closed chain, using the non-zero winding number).
func PointInRing(r []P, p P) int {
	wn := 0
	n := len(r)
	for i := 0; i < n; i++ {
		a, b := r[i], r[(i+1)%n]
		if a == b {
			if a == p {
				return 0
			}
			continue
		}
		o := Orient(a, b, p)
		if o == 0 && OnSeg(a, b, p) {
			return 0
		}
		if a[1] <= p[1] {
			if b[1] > p[1] && o > 0 {
				wn++
			}
		} else if b[1] <= p[1] && o < 0 {
			wn--
		}
	}
	if wn != 0 {
		return 1
	}
	return -1
}

// Winding number of p around the closed chain r (p must not be on it).
func Winding(r []P, p P) int {
	wn := 0
	n := len(r)
	for i := 0; i < n; i++ {
		a, b := r[i], r[(i+1)%n]
		o := Orient(a, b, p)
		if a[1] <= p[1] {
			if b[1] > p[1] && o > 0 {
				wn++
			}
		} else if b[1] <= p[1] && o < 0 {
			wn--
		}
	}
	return wn
}

// OnChain: p lies on the closed chain r.
func OnChain(r []P, p P) bool {
	n := len(r)
	if n == 1 {
		return r[0] == p
	}
	for i := 0; i < n; i++ {
		a, b := r[i], r[(i+1)%n]
		if Orient(a, b, p) == 0 && OnSeg(a, b, p) {
			return true
		}
	}
	return false
}

// ---------- exact parameter intervals (rationals with int64 parts) ----------

type rat struct{ n, d int64 } // d > 0

func mk(n, d int64) rat {
	if d < 0 {
		n, d = -n, -d
	}
	return rat{n, d}
}

// cmpRat compares two rationals (positive denominators) exactly: 128-bit products.
func cmpRat(a, b rat) int {
	return cmp128(a.n, b.d, b.n, a.d)
}

// cmp128 compares a*b with c*d without overflow.
func cmp128(a, b, c, d int64) int {
	sl, hl, ll := mul128(a, b)
	sr, hr, lr := mul128(c, d)
	if sl != sr {
		if sl < sr {
			return -1
		}
		return 1
	}
	r := 0
	switch {
	case hl != hr:
		if hl < hr {
			r = -1
		} else {
			r = 1
		}
	case ll != lr:
		if ll < lr {
			r = -1
		} else {
			r = 1
		}
	}
	if sl < 0 {
		return -r
	}
	return r
}

// mul128: sign (-1, 0, 1) and magnitude (hi, lo) of a*b
func mul128(a, b int64) (sign int, hi, lo uint64) {
	if a == 0 || b == 0 {
		return 0, 0, 0
	}
	sign = 1
	ua, ub := uint64(a), uint64(b)
	if a < 0 {
		sign, ua = -sign, uint64(-a)
	}
	if b < 0 {
		sign, ub = -sign, uint64(-b)
	}
	hi, lo = bits.Mul64(ua, ub)
	return
}

type Interval struct {
	lo, hi         rat
	loOpen, hiOpen bool
	Empty          bool
}

// axisIv: parameter interval of t in R with a <= p + t*d < b
func axisIv(p, d, a, b int64) Interval {
	if d == 0 {
		if a <= p && p < b {
			return Interval{lo: mk(0, 1), hi: mk(1, 1)}
		}
		return Interval{Empty: true}
	}
	if d > 0 {
		return Interval{lo: mk(a-p, d), hi: mk(b-p, d), hiOpen: true}
	}
	return Interval{lo: mk(b-p, d), hi: mk(a-p, d), loOpen: true}
}

func interIv(x, y Interval) Interval {
	if x.Empty || y.Empty {
		return Interval{Empty: true}
	}
	r := x
	if c := cmpRat(y.lo, r.lo); c > 0 || (c == 0 && y.loOpen) {
		r.lo, r.loOpen = y.lo, y.loOpen || (c == 0 && r.loOpen)
	}
	if c := cmpRat(y.hi, r.hi); c < 0 || (c == 0 && y.hiOpen) {
		r.hi, r.hiOpen = y.hi, y.hiOpen || (c == 0 && r.hiOpen)
	}
	c := cmpRat(r.lo, r.hi)
	if c > 0 || (c == 0 && (r.loOpen || r.hiOpen)) {
		return Interval{Empty: true}
	}
	return r
}

// SegInPixel: parameter interval (within [0,1]) of the closed segment p->q
// inside the half-open pixel [i*res,(i+1)*res) x [j*res,(j+1)*res).
func SegInPixel(p, q P, px PX, res int64) Interval {
	x := axisIv(p[0], q[0]-p[0], px[0]*res, (px[0]+1)*res)
	y := axisIv(p[1], q[1]-p[1], px[1]*res, (px[1]+1)*res)
	return interIv(interIv(x, y), Interval{lo: mk(0, 1), hi: mk(1, 1)})
}

// Route is the C02 reference: the hot pixels met by the closed segment p->q in
// order of travel.
func Route(p, q P, hot []PX, res int64) []PX {
	type hit struct {
		px PX
		iv Interval
	}
	hits := make([]hit, 0, len(hot))
	for _, h := range hot {
		if iv := SegInPixel(p, q, h, res); !iv.Empty {
			hits = append(hits, hit{h, iv})
		}
	}
	sort.Slice(hits, func(a, b int) bool {
		c := cmpRat(hits[a].iv.lo, hits[b].iv.lo)
		if c != 0 {
			return c < 0
		}
		return !hits[a].iv.loOpen && hits[b].iv.loOpen
	})
	out := make([]PX, len(hits))
	for i := range hits {
		out[i] = hits[i].px
	}
	return out
}

// PixOf: the half-open pixel containing u.
func PixOf(u P, res int64) PX { return PX{FloorDiv(u[0], res), FloorDiv(u[1], res)} }

// HotPixels: distinct pixels containing a vertex of any ring, sorted.
func HotPixels(rings [][]P, res int64) []PX {
	seen := map[PX]bool{}
	var out []PX
	for _, r := range rings {
		for _, v := range r {
			px := PixOf(v, res)
			if !seen[px] {
				seen[px] = true
				out = append(out, px)
			}
		}
	}
	sort.Slice(out, func(a, b int) bool {
		if out[a][1] != out[b][1] {
			return out[a][1] < out[b][1]
		}
		return out[a][0] < out[b][0]
	})
	return out
}

// RoutedChain: ring-wise concatenation of routed edges, consecutive duplicates
// merged, closing duplicate dropped (cyclic chain of pixel indices).
func RoutedChain(ring []P, hot []PX, res int64) []PX {
	var chain []PX
	n := len(ring)
	if n == 1 {
		return []PX{PixOf(ring[0], res)}
	}
	for i := 0; i < n; i++ {
		a, b := ring[i], ring[(i+1)%n]
		var r []PX
		if a == b {
			r = []PX{PixOf(a, res)}
		} else {
			r = Route(a, b, hot, res)
		}
		for _, c := range r {
			if len(chain) == 0 || chain[len(chain)-1] != c {
				chain = append(chain, c)
			}
		}
	}
	for len(chain) > 1 && chain[0] == chain[len(chain)-1] {
		chain = chain[:len(chain)-1]
	}
	return chain
}

// MaxVisits: the largest number of times any pixel centre occurs in the
// routed boundary (all chains together).
func MaxVisits(chains [][]PX) int {
	v := map[PX]int{}
	m := 0
	for _, c := range chains {
		for _, p := range c {
			v[p]++
			if v[p] > m {
				m = v[p]
			}
		}
	}
	return m
}

// IsRun: a->b is a routed edge or a straight monotone run of consecutive
// routed edges of one of the cyclic chains, in either direction.
func IsRun(chains [][]PX, a, b PX) bool {
	if a == b {
		return false
	}
	l2 := (b[0]-a[0])*(b[0]-a[0]) + (b[1]-a[1])*(b[1]-a[1])
	for _, chain := range chains {
		m := len(chain)
		if m < 2 {
			continue
		}
		for dir := 0; dir < 2; dir++ {
			for i := 0; i < m; i++ {
				if chain[i] != a {
					continue
				}
				j := i
				for step := 0; step < m; step++ {
					nj := (j + 1) % m
					if dir == 1 {
						nj = (j - 1 + m) % m
					}
					nx := chain[nj]
					cr := (b[0]-a[0])*(nx[1]-a[1]) - (b[1]-a[1])*(nx[0]-a[0])
					dot := (nx[0]-a[0])*(b[0]-a[0]) + (nx[1]-a[1])*(b[1]-a[1])
					pd := (chain[j][0]-a[0])*(b[0]-a[0]) + (chain[j][1]-a[1])*(b[1]-a[1])
					if cr != 0 || dot <= pd || dot > l2 {
						break
					}
					j = nj
					if nx == b {
						return true
					}
				}
			}
		}
	}
	return false
}

// CyclicEqual: a equals b as cyclic sequences (same direction).
func CyclicEqual(a, b []PX) bool {
	if len(a) != len(b) {
		return false
	}
	m := len(a)
	if m == 0 {
		return true
	}
	for s := 0; s < m; s++ {
		ok := true
		for i := 0; i < m; i++ {
			if a[i] != b[(s+i)%m] {
				ok = false
				break
			}
		}
		if ok {
			return true
		}
	}
	return false
}

// ValidHoles: every hole is simple, strictly inside the shell, and holes are
// mutually disjoint (no common point, none inside another).
func HoleOK(shell []P, holes [][]P, h []P) bool {
	if !Simple(h) {
		return false
	}
	for _, v := range h {
		if PointInRing(shell, v) != 1 {
			return false
		}
	}
	for i := range h {
		a, b := h[i], h[(i+1)%len(h)]
		for j := range shell {
			if SegsTouch(a, b, shell[j], shell[(j+1)%len(shell)]) {
				return false
			}
		}
		for _, o := range holes {
			for j := range o {
				if SegsTouch(a, b, o[j], o[(j+1)%len(o)]) {
					return false
				}
			}
		}
	}
	for _, o := range holes {
		if PointInRing(o, h[0]) >= 0 || PointInRing(h, o[0]) >= 0 {
			return false
		}
	}
	return true
}
