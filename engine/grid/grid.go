// Package grid builds the tile matrix sets the checks run on (synthetic dyadic
// quadtrees and blocks of the built-in sets) and relates the float coordinates
// the tool sees to the integer units of the reference model.
package grid

import (
	"fmt"
	"math"
	"strconv"

	"github.com/pdok/texel/tms20"
	"verif/engine/ref"
)

type crsStub struct{}

func (crsStub) Description() string { return "synthetic" }
func (crsStub) Authority() string   { return "EPSG" }
func (crsStub) Version() string     { return "0" }
func (crsStub) Code() string        { return "28992" }

// crsStubYX: a northing/easting ordered reference system (EPSG:3035 in texel's axis-order table).
type crsStubYX struct{}

func (crsStubYX) Description() string { return "synthetic, y/x ordered" }
func (crsStubYX) Authority() string   { return "EPSG" }
func (crsStubYX) Version() string     { return "0" }
func (crsStubYX) Code() string        { return "3035" }

// SynthYX is Synth over a reference system whose axes are ordered northing, easting: the same extent, the point
// of origin of every tile matrix written in the axis order of the reference system (y first).
func SynthYX(deepest int, px float64, ox, oy float64, tileWidth uint, corner tms20.CornerOfOrigin) tms20.TileMatrixSet {
	t := Synth(deepest, px, ox, oy, tileWidth, corner)
	t.ID = "synthetic-yx"
	t.CRS = crsStubYX{}
	t.OrderedAxes = []string{"Y", "X"}
	for z, tm := range t.TileMatrices {
		o := tms20.TwoDPoint{tm.PointOfOrigin[1], tm.PointOfOrigin[0]}
		tm.PointOfOrigin = &o
		t.TileMatrices[z] = tm
	}
	return t
}

// Synth builds a true quadtree set with ids 0..deepest whose internal pixel at
// id `deepest` measures px; tileWidth must be a power of two.  The extent is
// 16*tileWidth pixels of id 0 wide.
func Synth(deepest int, px float64, ox, oy float64, tileWidth uint, corner tms20.CornerOfOrigin) tms20.TileMatrixSet {
	cell0 := px * 16 * float64(uint(1)<<uint(deepest)) // cell size at id 0
	span := cell0 * float64(tileWidth)
	o := tms20.TwoDPoint{ox, oy}
	if corner == tms20.TopLeft {
		o = tms20.TwoDPoint{ox, oy + span}
	}
	t := tms20.TileMatrixSet{ID: "synthetic", CRS: crsStub{}, OrderedAxes: []string{"X", "Y"}, TileMatrices: map[int]tms20.TileMatrix{}}
	for z := 0; z <= deepest; z++ {
		oo := o
		t.TileMatrices[z] = tms20.TileMatrix{ID: strconv.Itoa(z), CellSize: cell0 / float64(uint(1)<<uint(z)), ScaleDenominator: 1,
			CornerOfOrigin: corner, PointOfOrigin: &oo, TileWidth: tileWidth, TileHeight: tileWidth, MatrixWidth: 1 << uint(z), MatrixHeight: 1 << uint(z)}
	}
	return t
}

// G relates one tile matrix set + a lattice window to reference units.
//
// Reference units: for synthetic grids one unit is 1/Sub of a pixel of the
// deepest id and coordinates are absolute from the grid corner; for real
// grids one unit is 1e-10 CRS units, local to Anchor (a pixel corner).
type G struct {
	Name    string
	TMS     tms20.TileMatrixSet
	Deepest int   // deepest tile matrix id of the scope
	Sub     int64 // lattice steps per deepest pixel
	// synthetic
	Px     float64
	Ox, Oy float64
	OffPx  [2]int64 // window origin in deepest pixels
	// pixel size of the deepest id in reference units
	ResDeepest int64
	// total number of deepest pixels per axis
	Size int64
	// real grids (a block of a built-in set): reference units are 1e-10 CRS units local to the
	// corner of the anchor pixel; MinX/MinY = extent corner in fixed point as the tool specifies
	Real       bool
	MinX, MinY int64
	AnchorPx   [2]int64 // anchor pixel (of the deepest id) whose corner is the local origin
}

// Quantise: the tool's specified float -> fixed point conversion (1e-10, truncating)
func Quantise(x float64) int64 { return int64(x * math.Pow(10, 10)) }

// NewReal builds a grid over a built-in tile matrix set: deepest = finest id of the scope, the window
// origin is the corner of pixel anchorPx of that id, the lattice has sub steps per deepest pixel.
func NewReal(name string, tms tms20.TileMatrixSet, deepest int, sub int64, anchorPx [2]int64) (*G, error) {
	bl, tr, err := tms.MatrixBoundingBox(0)
	if err != nil {
		return nil, err
	}
	tw := tms.TileMatrices[0].TileWidth
	level := uint(deepest) + uint(math.Log2(float64(tw))) + 4
	minX, minY, maxX := Quantise(bl[0]), Quantise(bl[1]), Quantise(tr[0])
	size := int64(1) << level
	res := (maxX - minX) / size
	return &G{Name: name, TMS: tms, Deepest: deepest, Sub: sub, ResDeepest: res, Size: size, Real: true, MinX: minX, MinY: minY, AnchorPx: anchorPx}, nil
}

func NewSynth(name string, deepest int, px, ox, oy float64, tileWidth uint, corner tms20.CornerOfOrigin, sub int64, offPx [2]int64) *G {
	lw := int64(math.Log2(float64(tileWidth)))
	return &G{Name: name, TMS: Synth(deepest, px, ox, oy, tileWidth, corner), Deepest: deepest, Sub: sub, Px: px, Ox: ox, Oy: oy, OffPx: offPx,
		ResDeepest: sub, Size: int64(1) << uint(int64(deepest)+lw+4)}
}

// Res: pixel size of id z in reference units.
func (g *G) Res(z int) int64 { return g.ResDeepest << uint(g.Deepest-z) }

// U: lattice point (steps from the window origin) -> reference units.
func (g *G) U(p ref.P) ref.P {
	if g.Real {
		// pixel corners exact, in-pixel offsets with the truncated step (the tool's centre is res/2 truncated)
		step := g.ResDeepest / g.Sub
		f := func(v int64) int64 {
			return ref.FloorDiv(v, g.Sub)*g.ResDeepest + (v-ref.FloorDiv(v, g.Sub)*g.Sub)*step
		}
		return ref.P{f(p[0]), f(p[1])}
	}
	return ref.P{g.OffPx[0]*g.Sub + p[0], g.OffPx[1]*g.Sub + p[1]}
}

// F: reference units -> the float coordinate handed to the tool (exact: all
// quantities are dyadic and small).
func (g *G) F(u ref.P) [2]float64 {
	if g.Real {
		ax := g.MinX + g.AnchorPx[0]*g.ResDeepest + u[0]
		ay := g.MinY + g.AnchorPx[1]*g.ResDeepest + u[1]
		return [2]float64{float64(ax) / math.Pow(10, 10), float64(ay) / math.Pow(10, 10)}
	}
	return [2]float64{g.Ox + float64(u[0])*g.Px/float64(g.Sub), g.Oy + float64(u[1])*g.Px/float64(g.Sub)}
}

// Decode: output coordinate at id z -> pixel index; ok=false if the coordinate
// is not exactly a pixel centre of that id.
func (g *G) Decode(z int, c [2]float64) (ref.PX, bool) {
	if g.Real {
		// pixel index relative to the anchor; the float may be one or two units off the integer centre
		r := g.Res(z)
		var out ref.PX
		for a, q := range [2]int64{Quantise(c[0]) - g.MinX, Quantise(c[1]) - g.MinY} {
			i := ref.FloorDiv(q, r)
			d := q - (i*r + r/2)
			// a float64 cannot hold every fixed-point value above 2^53 units: allow 2 ulps of the ordinate
			tol := int64(2 + 2*math.Abs(c[a])*2.3e-16*1e10)
			if d < -tol || d > tol {
				return ref.PX{}, false
			}
			out[a] = i - (g.AnchorPx[a] >> uint(g.Deepest-z))
		}
		return out, true
	}
	pz := g.Px * float64(uint(1)<<uint(g.Deepest-z))
	fx := (c[0]-g.Ox)/pz - 0.5
	fy := (c[1]-g.Oy)/pz - 0.5
	ix, iy := math.Floor(fx), math.Floor(fy)
	if ix != fx || iy != fy {
		return ref.PX{}, false
	}
	return ref.PX{int64(ix), int64(iy)}, true
}

// CentreF: the float centre of pixel px at id z (what the tool must return).
func (g *G) CentreF(z int, px ref.PX) [2]float64 {
	pz := g.Px * float64(uint(1)<<uint(g.Deepest-z))
	return [2]float64{g.Ox + (float64(px[0])+0.5)*pz, g.Oy + (float64(px[1])+0.5)*pz}
}

// Centre2: centre of pixel px at id z in doubled reference units.
func (g *G) Centre2(z int, px ref.PX) ref.P {
	r := g.Res(z)
	return ref.P{2*px[0]*r + r, 2*px[1]*r + r}
}

func (g *G) String() string {
	if g.Real {
		return fmt.Sprintf("%s(real grid, deepest id %d, pixel %d units, sub=%d, anchor pixel %v)", g.Name, g.Deepest, g.ResDeepest, g.Sub, g.AnchorPx)
	}
	return fmt.Sprintf("%s(deepest=%d px=%v origin=(%v,%v) sub=%d off=%v)", g.Name, g.Deepest, g.Px, g.Ox, g.Oy, g.Sub, g.OffPx)
}
