// Package grid builds the tile matrix sets the checks run on (synthetic dyadic
// quadtrees and blocks of the built-in sets) and relates the float coordinates
// the tool sees to the integer units of the reference model.
package grid

import (
	"fmt"
	"math"
	"strconv"

	"github.com/pdok/texel/tms20"
	"verif/engine/ref"
)

type crsStub struct{}

func (crsStub) Description() string { return "synthetic" }
func (crsStub) Authority() string   { return "EPSG" }
func (crsStub) Version() string     { return "0" }
func (crsStub) Code() string        { return "28992" }

// Synth builds a true quadtree set with ids 0..deepest whose internal pixel at
// id `deepest` measures px; tileWidth must be a power of two.  The extent is
// 16*tileWidth pixels of id 0 wide.
func Synth(deepest int, px float64, ox, oy float64, tileWidth uint, corner tms20.CornerOfOrigin) tms20.TileMatrixSet {
	cell0 := px * 16 * float64(uint(1)<<uint(deepest)) // cell size at id 0
	span := cell0 * float64(tileWidth)
	o := tms20.TwoDPoint{ox, oy}
	if corner == tms20.TopLeft {
		o = tms20.TwoDPoint{ox, oy + span}
	}
	t := tms20.TileMatrixSet{ID: "synthetic", CRS: crsStub{}, OrderedAxes: []string{"X", "Y"}, TileMatrices: map[int]tms20.TileMatrix{}}
	for z := 0; z <= deepest; z++ {
		oo := o
		t.TileMatrices[z] = tms20.TileMatrix{ID: strconv.Itoa(z), CellSize: cell0 / float64(uint(1)<<uint(z)), ScaleDenominator: 1,
			CornerOfOrigin: corner, PointOfOrigin: &oo, TileWidth: tileWidth, TileHeight: tileWidth, MatrixWidth: 1 << uint(z), MatrixHeight: 1 << uint(z)}
	}
	return t
}

// G relates one tile matrix set + a lattice window to reference units.
//
// Reference units: for synthetic grids one unit is 1/Sub of a pixel of the
// deepest id and coordinates are absolute from the grid corner; for real
// grids one unit is 1e-10 CRS units, local to Anchor (a pixel corner).
type G struct {
	Name    string
	TMS     tms20.TileMatrixSet
	Deepest int   // deepest tile matrix id of the scope
	Sub     int64 // lattice steps per deepest pixel
	// synthetic
	Px     float64
	Ox, Oy float64
	OffPx  [2]int64 // window origin in deepest pixels
	// pixel size of the deepest id in reference units
	ResDeepest int64
	// total number of deepest pixels per axis
	Size int64
}

func NewSynth(name string, deepest int, px, ox, oy float64, tileWidth uint, corner tms20.CornerOfOrigin, sub int64, offPx [2]int64) *G {
	lw := int64(math.Log2(float64(tileWidth)))
	return &G{Name: name, TMS: Synth(deepest, px, ox, oy, tileWidth, corner), Deepest: deepest, Sub: sub, Px: px, Ox: ox, Oy: oy, OffPx: offPx,
		ResDeepest: sub, Size: int64(1) << uint(int64(deepest)+lw+4)}
}

// Res: pixel size of id z in reference units.
func (g *G) Res(z int) int64 { return g.ResDeepest << uint(g.Deepest-z) }

// U: lattice point (steps from the window origin) -> reference units.
func (g *G) U(p ref.P) ref.P {
	return ref.P{g.OffPx[0]*g.Sub + p[0], g.OffPx[1]*g.Sub + p[1]}
}

// F: reference units -> the float coordinate handed to the tool (exact: all
// quantities are dyadic and small).
func (g *G) F(u ref.P) [2]float64 {
	return [2]float64{g.Ox + float64(u[0])*g.Px/float64(g.Sub), g.Oy + float64(u[1])*g.Px/float64(g.Sub)}
}

// Decode: output coordinate at id z -> pixel index; ok=false if the coordinate
// is not exactly a pixel centre of that id.
func (g *G) Decode(z int, c [2]float64) (ref.PX, bool) {
	pz := g.Px * float64(uint(1)<<uint(g.Deepest-z))
	fx := (c[0]-g.Ox)/pz - 0.5
	fy := (c[1]-g.Oy)/pz - 0.5
	ix, iy := math.Floor(fx), math.Floor(fy)
	if ix != fx || iy != fy {
		return ref.PX{}, false
	}
	return ref.PX{int64(ix), int64(iy)}, true
}

// CentreF: the float centre of pixel px at id z (what the tool must return).
func (g *G) CentreF(z int, px ref.PX) [2]float64 {
	pz := g.Px * float64(uint(1)<<uint(g.Deepest-z))
	return [2]float64{g.Ox + (float64(px[0])+0.5)*pz, g.Oy + (float64(px[1])+0.5)*pz}
}

// Centre2: centre of pixel px at id z in doubled reference units.
func (g *G) Centre2(z int, px ref.PX) ref.P {
	r := g.Res(z)
	return ref.P{2*px[0]*r + r, 2*px[1]*r + r}
}

func (g *G) String() string {
	return fmt.Sprintf("%s(deepest=%d px=%v origin=(%v,%v) sub=%d off=%v)", g.Name, g.Deepest, g.Px, g.Ox, g.Oy, g.Sub, g.OffPx)
}
