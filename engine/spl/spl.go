package spl

import (
	"database/sql"

	"github.com/go-spatial/geom"
	"github.com/go-spatial/geom/cmp"
	"github.com/go-spatial/geom/encoding/gpkg"
	"github.com/mattn/go-sqlite3"
)

func init() {
	ext := func(b []byte) *geom.Extent {
		sb, err := gpkg.DecodeGeometry(b)
		if err != nil || sb == nil || sb.Geometry == nil {
			return nil
		}
		e, err := geom.NewExtentFromGeometry(sb.Geometry)
		if err != nil {
			return nil
		}
		return e
	}
	sql.Register("spatialite", &sqlite3.SQLiteDriver{
		ConnectHook: func(conn *sqlite3.SQLiteConn) error {
			if err := conn.RegisterFunc("ST_IsEmpty", func(b []byte) bool {
				sb, err := gpkg.DecodeGeometry(b)
				return err != nil || sb == nil || cmp.IsEmptyGeo(sb.Geometry)
			}, true); err != nil {
				return err
			}
			for name, idx := range map[string]int{"ST_MinX": 0, "ST_MinY": 1, "ST_MaxX": 2, "ST_MaxY": 3} {
				i := idx
				if err := conn.RegisterFunc(name, func(b []byte) float64 {
					e := ext(b)
					if e == nil {
						return 0
					}
					return e[i]
				}, true); err != nil {
					return err
				}
			}
			return nil
		},
	})
}
