#!/bin/bash
# tools/seed-regress.sh [name...] : run, for every seeded change (default: all), the quick check of the property the
# change was written for against a scratch worktree of /repo with the patch applied (VERIF_REPO), and write one line
# per seed to seeded/REGRESSION.txt.  /repo itself is not touched.
set -u
cd /verif
export GOFLAGS=-mod=mod GOPROXY=off GOSUMDB=off GOTOOLCHAIN=local
names=("$@"); [ ${#names[@]} -eq 0 ] && names=($(ls seeded | grep -E '^C[0-9]+-[a-z]$'))
out=seeded/REGRESSION.txt; [ $# -eq 0 ] && : > $out
for n in "${names[@]}"; do
  p=${n%%-*}
  WT=/tmp/seedreg-$n
  git -C /repo worktree remove --force $WT 2>/dev/null; rm -rf $WT
  git -C /repo worktree add -q $WT HEAD || { echo "$n worktree failed" >> $out; continue; }
  if ! git -C $WT apply /verif/seeded/$n/patch.diff; then echo "$n patch does not apply on $(git -C /repo rev-parse --short HEAD)" >> $out; git -C /repo worktree remove --force $WT; continue; fi
  log=/root/seedreg/$n.log; mkdir -p /root/seedreg
  t0=$(date +%s)
  VERIF_REPO=$WT VERIF_EVIDENCE_DIR=/tmp/seed-evidence bin/check $p quick > $log 2>&1; rc=$?
  echo "$n property=$p exit=$rc violations=$(grep -c '^VIOLATION' $log) wall=$(( $(date +%s) - t0 ))s $(grep -h 'signature=' $log | sed 's/ *signature=\([^ ]*\).*/\1/' | sort | uniq -c | sort -rn | head -2 | awk '{printf "%s x%s; ", $2, $1}')" >> $out
  git -C /repo worktree remove --force $WT; rm -rf $WT
done
