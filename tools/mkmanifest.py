#!/usr/bin/env python3
"""Generates /verif/MANIFEST.json from the table below (single source of truth)."""
import json, sys

CHECKS = {
 # id: (engine, technique, level text, level note, design_ref)
 "C17": ("bitmc", "exhaustive enumeration of all pairs of w-bit address halves in every placement plus all 1/2-bit pattern pairs through the real ToZ/FromZ, against a bit-loop reference; parent/child steps walked as transitions",
         "Every address of the stated finite scope is executed on the real morton package and compared with a bit-loop reference (value, inverse, parent, four children, encodable flag). Exhaustive within the scope; the scope is all pairs of 12-bit (quick) / 16-bit (thorough) halves in every placement plus all pairs of 1- and 2-bit patterns and boundary values above 2^32.",
         "Trusted: the 10-line bit-loop reference and its 16-bit table decomposition (self-checked at start). Not covered: defects needing >=3 specific bits spread over both halves of the same argument.", "3/C17"),
}

SNAP_NOTE = "Trusted: reference models in engine/ref (exact integer arithmetic; router self-checked against brute-force sampling), Go toolchain. Bounds: lattice window/step/vertex count of each scope as listed in the evidence; inputs above the bounds are outside. Real code executed: snap.SnapPolygon / pointindex built from /repo's working tree."
LAT = "bounded exhaustive input search (DFS over partial lattice polygons, validity pruning only; plus exhaustively enumerated finite families of larger polygons: every edge-connected union of cells of 4x3 / 4x4 grids of rectangles with sub-pixel columns and rows x every start vertex, and parameterised families around ring splitting / hole matching) executing the real code on every complete input, judged by an exact reference model"
CHECKS.update({
 "C01": ("snapmc", LAT + "; oracle: pairwise proper-crossing test of all returned boundary edges per tile matrix",
   "Every valid polygon of each lattice scope (all simple shells with every rotation, holes, multi-level grids) x id subsets x all four flag combinations is snapped by the real code and all returned edges are tested pairwise for proper crossings in exact arithmetic. Exhaustive within the scopes; crossings that need more vertices or a finer lattice than the scopes are covered only through pinned witnesses.", SNAP_NOTE, "3/C01"),
 "C02": ("snapmc", "exhaustive enumeration of (occupied pixel set, segment) pairs through the real PointIndex.SnapClosestPoints vs exact half-open-pixel router; plus DFS over lattice polygons comparing non-collapsing results with the routed chains",
   "All non-empty hot sets of a 2x2 (thorough 3x3) window x all ordered pairs of quarter-pixel lattice points in hot pixels, at index depths 4..7, requested level deepest..deepest-2, five placements incl. root centre and extent corners: every tie case of that lattice is executed and compared with the reference router. Second clause: every non-collapsing valid lattice polygon must equal the routed chains.", SNAP_NOTE, "3/C02"),
 "C04": ("snapmc", LAT + "; oracle: vertex provenance, exact edge-in-thickened-boundary clipping, exact winding-number coverage comparison at all quarter-pixel locations farther than one pixel from the boundary",
   "All three clauses are evaluated exactly for every valid polygon of the scopes incl. three-level grids where interior locations exist.", SNAP_NOTE, "3/C04"),
 "C18": ("snapmc", LAT + "; premise (no centre visited more than twice) evaluated by the reference router; oracle: run-of-routed-edges test, hole containment, exact signed-area equality",
   "Every valid polygon of the scopes that satisfies the premise is executed; the three consequences are decided exactly.", SNAP_NOTE, "3/C18"),
 "C05": ("snapmc", LAT + " over valid polygons AND every vertex sequence (repeats, 1-3 rings) of the invalid scopes, all four (keep, reverse) combinations per input; structural invariants + keep/no-keep differential",
   "Structural invariants of every returned ring and the keep/no-keep differential are checked on every input of the scopes, valid or not.", SNAP_NOTE + " Orientation is judged only for returned rings that are simple and have non-zero area.", "3/C05"),
 "C08": ("snapmc", LAT + " on 3- and 4-level round grids x every non-empty id subset; oracle: per-id result equals the result of requesting that id alone",
   "Every subset of ids {0..3} is requested for every input of the scopes and compared id by id with the single-id request (presence included); id lists as written (descending, largest id not last, duplicates) on a 3-level grid; ids far apart on a six-level grid; vertices 1/512 pixel below / on / above a border of the coarsest id; a panic that occurs only when ids are requested together counts as a violation; the multi-level families (thin frames, comb-sided holes) x every subset of {0,1,2}.", SNAP_NOTE, "3/C08"),
 "C09": ("snapmc", "exhaustive enumeration of (grid, id, border, distance, vertex position, ring, flag) through the real snap.SnapPolygon vs half-open extent test on specified fixed-point quantisation",
   "on the 16x16-pixel grids every in-grid pixel x every pixel of the two-pixel frame around the grid as two vertices of one ring (outside vertex at every position, shell and hole); 19 grids (two origins, both corners of origin, two depths, two tile widths, RD at three ids) x 4 borders x 42 distances from 1e-10 to the whole extent x outside/inside x every vertex position, and x 4 corners x 35 pairs of distances from the two borders of the corner; each with the id alone and together with id 0 (both orders), keep on/off, both values of the ignore flag.", "Trusted: the extent of each grid computed from its definition; quantisation as specified (1e-10, truncating).", "3/C09"),
})
CHECKS.update({
 "C14": ("tmsmc", "exhaustive enumeration of (built-in set, deepest id) and of every single-level perturbation of every accepted set through the real validateTileMatrixSet (overlay-added in-package test), the real binary and IsQuadTree, against an exact-decimal reference quadtree predicate; pixel size observed through the index",
   "All 14 shipped sets x all their ids, observed three ways (binary, in-package, library) and compared with a reference predicate; ~4 400 single-condition perturbations (every condition at every level; matrix sizes off by one on one side, on both sides, and on both sides with the deeper levels doubling on) must be rejected without panic; accepted sets must use pixel size = cellSize/16.",
   "Trusted: reference predicate on exact decimals with the tool's stated 1.99..2.01 cell-size tolerance; `go test -overlay` to reach the unexported validateTileMatrixSet (go:embed does not see overlay files, so perturbed sets cannot reach the binary).", "3/C14"),
 "C15": ("tmsmc", "exhaustive enumeration of (set, tile matrix, tile, interior/outside point) through the real FromNative/ToNative/MatrixBoundingBox against exact rational arithmetic on the documents' decimals",
   "All tiles of every matrix with <= 4096 tiles (thorough 65 536), else all combinations of 8 column and 8 row classes; 5 interior points per tile, 8 outside points per matrix, ToNative also for the tiles one past the last column / row (tile (w,h) closes the bounding box); every built-in set as shipped and rewritten to the other corner of origin.",
   "Trusted: hand-checked axis-order table; tolerance = documented 9-decimal rounding + 8 ulp of the largest operand.", "3/C15"),
 "C16": ("tmsmc", "explicit-state BFS over documents (canonical-JSON states, one structural mutation per transition) from the 15 shipped documents, each state decoded/encoded/decoded by the real tms20 code and classified by a reference validity predicate",
   "Depth 1 from all full documents, depth 2 (thorough: 3 for two documents) from reduced documents; round trip stability, semantic equality for shipped documents, no panic, must-reject categories rejected (tile matrices and bounding box); the mutation alphabet includes arrays one element longer than written, the other spelling of the same CRS reference and of integer ids, a number with 13 decimals; a sentinel value decoded before the exploration must still encode the same after every other document was decoded.",
   "Trusted: the must-reject predicate (only categories the property names); nil/empty slices identified.", "3/C16"),
})
CHECKS.update({
 "C06": ("snapmc", "bounded exhaustive input search over arbitrary vertex sequences on the real code built with a mechanically inserted step counter in every loop body (instrumentation of the current sources via go build -overlay); oracle: returns without panic within A*(n+2)^3 loop iterations",
   "All walks over 2x2 / 5 / 3x2 pixel centres incl. revisits (length <= 12 quick, 14 thorough), all sequences with repeats on the half-pixel lattice, 1-3 rings incl. 1-2 point rings, multi-level, several rings x several ids (valid shells with holes and arbitrary ring sequences), plus valid scopes: no panic, no OutsideGridError, deterministic step budget (no wall-clock oracle).",
   "Trusted: the instrumenter's Tick insertion (semantics preserving), frozen budget constant A=64 (19x the largest ratio observed). Deep levels of real grids are covered under C03 (F6/F7).", "3/C06"),
 "C07": ("snapmc", "stateless exploration of map-iteration orders on the instrumented real code (every range over a map / maps.Keys is a choice point; iterative deviation bounding) + exhaustive ring-direction / reverse-flag / repetition checks on the un-instrumented code, with outcome digests compared between the two builds",
   "Per input: all-ascending, all-descending and every execution with <= 1 (thorough 2) deviations (all n! permutations per occurrence for n<=4) must return deep-equal results; plain build: 3 repetitions, every subset of rings reversed (also with rings written closed), reverse flag relation, deepest-id blocks of the real grids, and history independence (every input of three small scopes snapped in enumeration order and again in reverse order with an unrelated call in between); conformance: instrumented outcomes re-observed on the un-instrumented build.",
   "Trusted: instrumenter rewrites (validated per run by the digest comparison), maps iterated inside third-party packages are not controlled.", "3/C07"),
})
CHECKS.update({
 "C10": ("pipemc", "stateless model checking of the real processing package (mechanically instrumented: every channel operation, select, go statement, WaitGroup / Mutex / Once operation, sync/atomic operation, timer / ticker / sleep and map iteration is a scheduling / choice point owned by a controlled scheduler that runs one goroutine at a time) for every feature stream of a bounded alphabet x outcome table, against a sequential reference of what each target must receive",
   "All streams up to length 3 (1 target), 2 (2-3 targets) over non-polygon / polygon / 1-2 part multipolygon with every kept/dropped/split outcome vector, target id sets {3,5,8}, {0,7} and {-3,0,4}, plus all streams up to length 2 over every non-polygon geometry type (point, line, multi types, collections incl. one holding a polygon, nil, pointer); per stream the default schedule and every schedule with <= 1 deviation (thorough: <= 2 preemptions) incl. all map-iteration orders of the target maps; received features compared exactly (identity, attributes, geometry, order) at hand-over and again at the target's final write; conformance: every scenario is also run on the un-instrumented package, free running at GOMAXPROCS 1 and 16, against the same reference.",
   "Trusted: scheduler's channel/wait-group model (mismatch = harness error), instrumenter, fake source/targets; Polygon and 1-element MultiPolygon are identified.", "3/C10"),
 "C11": ("pipemc", "stateless model checking of the real (instrumented) processing package under a controlled scheduler: all schedules with state-hash pruning for the small configurations, iterative preemption / deviation bounding for the larger ones (a deviation = a preemption, a non-default map order, or a virtual timer firing while something else can move; the receiver of a rendezvous is scheduled separately from the sender, so executions are sequentially consistent interleavings); plus a separate free-running -race pass of the same harness bodies against the un-instrumented package",
   "Reader, snapper, router and N writer goroutines (N=1..5) with fake targets whose handling and final write are separately scheduled steps: no deadlock, no livelock (a repeated state in which only goroutines polling an atomic can move), no panic (send on closed, double close, negative wait group), no early return (every target finished its final write when ProcessFeatures returns; the caller's table switch is not observed), no leak, no drop/dup/reorder. One outcome per scenario expected and reported.",
   "Trusted: scheduler model; memory-model effects only through the sampled free-running -race pass (1800 runs, GOMAXPROCS 1/2/16, streams up to 200), reported separately in the evidence.", "3/C11"),
})
CHECKS.update({
 "C12": ("gpkgmc", "exhaustive enumeration of a finite lattice of (page size, feature count, content pattern, schema, geometry type) through the real TargetGeopackage on real SQLite files, read back with SQL and compared with the list of features handed over",
   "Page sizes 1..3 (thorough 6) x counts 0..3p+1 x all content sequences over {small, extent-extending, empty} up to length 5 and all placements of <= 2 special features beyond x two schemas (geometry column in the middle, NULL patterns, values that conversions could damage) x polygon/multipolygon/point; all eight geometry type names a table may carry; a file-local srs_id; a BIGINT key handed over in descending order with VARCHAR(20) NOT NULL / DOUBLE attributes; plus two tables written one after the other through one target (all pairs of nine short patterns x page sizes 1-2): rows, order, attributes, geometry, spatial index entries, recorded extent, table definition and SRS.",
   "Trusted: the spatialite driver stub (plain SQLite + pure-Go ST_ functions) stands in for libspatialite; a log.Fatal inside texel is reported as a violation with the case that was running.", "3/C12"),
 "C13": ("gpkgmc", "exhaustive enumeration of a union of fully enumerated sub-lattices of invocations of the real texel binary (built from the working tree with the driver stub by overlay) on generated source GeoPackages; every produced file compared table by table, row by row with a reference computed by the library from the decoded source rows",
   "Id lists (single, descending, three, duplicates) x keep x reverse x page sizes; all 8 flag combinations via command line and environment, with and without an outside-grid feature; 5 target path shapes x fresh/overwrite/pre-existing+overwrite; overwrite with every non-empty proper subset of the requested targets pre-existing x three id lists; id lists with a repeated id x overwrite scenario; tables whose key is no rowid alias stored in descending key order; the off flags given explicitly as false; every ordering of every subset of >= 2 of the four table kinds (polygon, multipolygon, point, line) and sources with a table without rows; a family of 172 (thorough 516) sources (every sequence of <= 2 polygon kinds x multipolygon kinds, line/point tables); exact file set, rows, attributes, geometries, other tables copied, nothing of an old file survives.",
   "Trusted: driver stub; reference uses snap.SnapPolygon of the same tree (C13 checks plumbing, not snapping).", "3/C13"),
})
CHECKS.update({
 "C03": ("snapmc", "exhaustive enumeration of (accepted built-in set, id z, deepest id z' requested together, anchor, flags, probe polygon) through the real snap.SnapPolygon; every returned ordinate compared with the ideal pixel centre computed in exact rationals from the document; plus synthetic grids exercising tile width / corner / origin / axis-order arithmetic",
   "7 accepted sets x all (z, z') pairs x 9 anchors (min edge, middle, max edge per axis) x 4 flag combinations x probe shapes; tolerance = deviation reported by DeviationStats + 2e-10 + 1 ulp; synthetic grids with tile width 1/4/256, both corners of origin, three origins (one not aligned to any pixel grid), x/y and y/x ordered reference systems, all 15 id subsets, exact equality.",
   "Trusted: exact rational arithmetic on the documents' decimals, hand-checked axis order of the two northing-first sets. Float behaviour away from the 9 anchors per grid is outside.", "3/C03"),
})
PENDING = {}
ALL = ["C01","C02","C03","C04","C18","C05","C06","C07","C08","C09","C10","C11","C12","C13","C14","C15","C16","C17"]

def main():
    checks = []
    for pid in ALL:
        if pid not in CHECKS: continue
        eng, tech, text, note, ref = CHECKS[pid]
        checks.append({
            "property_id": pid,
            "quick_cmd": f"bin/check {pid} quick",
            "thorough_cmd": f"bin/check {pid} thorough",
            "evidence_file": f"/verif/evidence/{pid}.json",
            "replay_cmd_template": f"bin/check {pid} --replay {{path}}",
            "engine": eng,
            "level_claimed": {"category": "model_checking", "text": text, "design_ref": ref},
            "level_note": note,
            "technique": tech,
        })
    na = [{"property_id": p, "reason": PENDING.get(p, "check not built yet in this session; will be claimed once its bounded exhaustive check exists")} for p in ALL if p not in CHECKS]
    m = {
        "version": 1,
        "setup_cmd": "bin/setup",
        "hooks": {
            "guard": "verif",
            "enable": "checks build /repo's current working tree with `-tags verif` plus a `go build -overlay` generated at check time (driver stub, instrumented copies of the current sources); no hook commits live in /repo",
            "baseline_off_cmd": "cd /repo && GOFLAGS=-mod=mod GOPROXY=off go test -vet=off -count=1 ./...",
            "source_commits": [],
            "add_only": True,
        },
        "engines": [
            {"name": "snapmc", "path": "engine/cmd/snapmc", "serves_properties": ["C01","C02","C03","C04","C05","C06","C07","C08","C09","C18"], "kind_free_text": "process-sharded DFS over lattice inputs executing the real snap/pointindex code against exact reference models (engine/ref, engine/lat, engine/grid)"},
            {"name": "pipemc", "path": "engine/cmd/pipemc", "serves_properties": ["C10","C11"], "kind_free_text": "controlled scheduler (engine/sched) + stateless DFS with state-hash pruning and deviation bounding over the instrumented real processing package; instrumenter in /verif/instr, runtime injected by go build -overlay"},
            {"name": "gpkgmc", "path": "engine/cmd/gpkgmc", "serves_properties": ["C12","C13"], "kind_free_text": "exhaustive lattices of writer runs / CLI invocations on real SQLite files (driver stub engine/spl, injected into the binary by overlay)"},
            {"name": "tmsmc", "path": "engine/cmd/tmsmc", "serves_properties": ["C14","C15","C16"], "kind_free_text": "exhaustive enumeration / explicit-state BFS over tile matrix set documents and their mutations on the real tms20, pointindex and main code"},
            {"name": "bitmc", "path": "engine/cmd/bitmc", "serves_properties": ["C17"], "kind_free_text": "exhaustive bit-pattern enumeration on the real code vs bit-loop reference"},
        ],
        "checks": checks,
        "not_applicable": na,
        "notes": "All checks: bounded exhaustive exploration of the real code built from /repo's working tree (see DESIGN.md).",
    }
    json.dump(m, open("/verif/MANIFEST.json", "w"), indent=1)
    print("wrote MANIFEST.json:", len(checks), "checks,", len(na), "not_applicable")

main()
