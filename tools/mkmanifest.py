#!/usr/bin/env python3
"""Generates /verif/MANIFEST.json from the table below (single source of truth)."""
import json, sys

CHECKS = {
 # id: (engine, technique, level text, level note, design_ref)
 "C17": ("bitmc", "exhaustive enumeration of all pairs of w-bit address halves in every placement plus all 1/2-bit pattern pairs through the real ToZ/FromZ, against a bit-loop reference; parent/child steps walked as transitions",
         "Every address of the stated finite scope is executed on the real morton package and compared with a bit-loop reference (value, inverse, parent, four children, encodable flag). Exhaustive within the scope; the scope is all pairs of 12-bit (quick) / 16-bit (thorough) halves in every placement plus all pairs of 1- and 2-bit patterns and boundary values above 2^32.",
         "Trusted: the 10-line bit-loop reference and its 16-bit table decomposition (self-checked at start). Not covered: defects needing >=3 specific bits spread over both halves of the same argument.", "3/C17"),
}
PENDING = {}
ALL = ["C01","C02","C03","C04","C18","C05","C06","C07","C08","C09","C10","C11","C12","C13","C14","C15","C16","C17"]

def main():
    checks = []
    for pid in ALL:
        if pid not in CHECKS: continue
        eng, tech, text, note, ref = CHECKS[pid]
        checks.append({
            "property_id": pid,
            "quick_cmd": f"bin/check {pid} quick",
            "thorough_cmd": f"bin/check {pid} thorough",
            "evidence_file": f"/verif/evidence/{pid}.json",
            "replay_cmd_template": f"bin/check {pid} --replay {{path}}",
            "engine": eng,
            "level_claimed": {"category": "model_checking", "text": text, "design_ref": ref},
            "level_note": note,
            "technique": tech,
        })
    na = [{"property_id": p, "reason": PENDING.get(p, "check not built yet in this session; will be claimed once its bounded exhaustive check exists")} for p in ALL if p not in CHECKS]
    m = {
        "version": 1,
        "setup_cmd": "bin/setup",
        "hooks": {
            "guard": "verif",
            "enable": "checks build /repo's current working tree with `-tags verif` plus a `go build -overlay` generated at check time (driver stub, instrumented copies of the current sources); no hook commits live in /repo",
            "baseline_off_cmd": "cd /repo && GOFLAGS=-mod=mod GOPROXY=off go test -vet=off -count=1 ./...",
            "source_commits": [],
            "add_only": True,
        },
        "engines": [
            {"name": "bitmc", "path": "engine/cmd/bitmc", "serves_properties": ["C17"], "kind_free_text": "exhaustive bit-pattern enumeration on the real code vs bit-loop reference"},
        ],
        "checks": checks,
        "not_applicable": na,
        "notes": "All checks: bounded exhaustive exploration of the real code built from /repo's working tree (see DESIGN.md).",
    }
    json.dump(m, open("/verif/MANIFEST.json", "w"), indent=1)
    print("wrote MANIFEST.json:", len(checks), "checks,", len(na), "not_applicable")

main()
