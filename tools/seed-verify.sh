#!/bin/bash
# tools/seed-verify.sh <seed-name> <property-id> "<demo go test command (run in repo root)>"
# Expects /verif/seeded/<seed-name>/patch.diff and demo files under /verif/seeded/<seed-name>/demo/<repo-relative path>.
# Confirms: (a) repo tests pass with the patch, (b) demo fails with it, (c) demo passes without it,
# then runs bin/check <property-id> quick with the patch applied to /repo and undoes it.
set -u
NAME=$1; PID=$2; DEMO=$3
S=/verif/seeded/$NAME
export GOFLAGS=-mod=mod GOPROXY=off GOSUMDB=off GOTOOLCHAIN=local
WT=/tmp/seedwt-$NAME
git -C /repo worktree remove --force $WT 2>/dev/null; rm -rf $WT
git -C /repo worktree add -q $WT HEAD || exit 2
res() { echo "$1" | tee -a $S/verify.log; }
: > $S/verify.log
cd $WT
git apply $S/patch.diff || { res "patch does not apply"; exit 2; }
if go build ./... && go test -count=1 ./... > $S/tests-with-patch.log 2>&1; then res "(a) repo tests pass with patch: yes"; A=1; else res "(a) repo tests pass with patch: NO"; A=0; fi
cp -r $S/demo/. $WT/
if bash -c "$DEMO" > $S/demo-with-patch.log 2>&1; then res "(b) demo fails with patch: NO (it passed)"; B=0; else res "(b) demo fails with patch: yes"; B=1; fi
git apply -R $S/patch.diff
if bash -c "$DEMO" > $S/demo-without-patch.log 2>&1; then res "(c) demo passes without patch: yes"; C=1; else res "(c) demo passes without patch: NO"; C=0; fi
cd /verif
# now the check.  SEED_IN_PLACE=1: apply to /repo itself and undo afterwards (only when nothing else
# is building from /repo); default: the patched scratch worktree through VERIF_REPO (equivalent: every
# build helper and harness takes the repository location from it)
rm -rf $WT/zz_* ; (cd $WT && git checkout -q -- . && git clean -fdq && git apply $S/patch.diff)
for p in $PID; do
  if [ "${SEED_IN_PLACE:-0}" = 1 ]; then
    git -C /repo status --short | grep -q . && { res "/repo not clean"; exit 2; }
    git -C /repo apply $S/patch.diff || { res "patch does not apply to /repo"; exit 2; }
    bin/check $p quick > $S/check-$p.log 2>&1; rc=$?
    git -C /repo checkout -- .
  else
    VERIF_REPO=$WT VERIF_EVIDENCE_DIR=/tmp/seed-evidence bin/check $p quick > $S/check-$p.log 2>&1; rc=$?
  fi
  res "bin/check $p quick with patch: exit=$rc $(grep -c '^VIOLATION' $S/check-$p.log) VIOLATION lines; $(grep -h 'signature=' $S/check-$p.log | sed 's/ .*//' | sort | uniq -c | tr '\n' ';')"
done
git -C /repo worktree remove --force $WT; rm -rf $WT
rm -f $S/tests-with-patch.log
echo "A=$A B=$B C=$C"
