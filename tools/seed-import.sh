#!/bin/bash
# tools/seed-import.sh <worktree> <seed-name> : copy a sub-agent's deliverables (zz_seed/patch.diff, NOTES.md,
# demo files = untracked *_test.go in the worktree) into /verif/seeded/<seed-name>/
set -eu
WT=$1; NAME=$2
S=/verif/seeded/$NAME
mkdir -p $S/demo
cp $WT/zz_seed/patch.diff $S/patch.diff
cp $WT/zz_seed/NOTES.md $S/NOTES.md
cd $WT
git status --porcelain --untracked-files=all | awk '$1=="??"{print $2}' | grep -v '^zz_seed/' | while read f; do
  mkdir -p $S/demo/$(dirname $f); cp $f $S/demo/$f; echo "demo file: $f"
done
