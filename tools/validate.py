#!/usr/bin/env python3
import json, jsonschema, glob, sys
ok = True
try:
    jsonschema.validate(json.load(open('/verif/MANIFEST.json')), json.load(open('/root/.vp/MANIFEST.schema.json')))
except Exception as e:
    ok = False; print("MANIFEST invalid:", e)
es = json.load(open('/root/.vp/EVIDENCE.schema.json'))
for f in sorted(glob.glob('/verif/evidence/*.json')):
    try:
        jsonschema.validate(json.load(open(f)), es)
    except Exception as e:
        ok = False; print(f, "invalid:", str(e)[:300])
print("valid" if ok else "INVALID")
sys.exit(0 if ok else 1)
