// instr rewrites the CURRENT working-tree sources of the given texel packages so
// that every source of nondeterminism becomes a choice point owned by the
// explorer: range over a map / maps.Keys / maps.Values (vsrt.Order / vsrt.Perm),
// channel operations and close (vsrt.Pre), go statements (vsrt.Go), sync
// primitives (import rewritten to the vsync shim) and, with -tick, a step counter
// in every loop body.  Anything it does not understand is a hard error.  The
// rewritten files are written to -out and the overlay mapping is printed.
package main

import (
	"bytes"
	"flag"
	"fmt"
	"go/ast"
	"go/format"
	"go/token"
	"go/types"
	"os"
	"path/filepath"
	"reflect"
	"strings"

	"golang.org/x/tools/go/ast/astutil"
	"golang.org/x/tools/go/packages"
)

const rtPath = "github.com/pdok/texel/zzverif/vsrt"
const syncShim = "github.com/pdok/texel/zzverif/vsync"

var tick = flag.Bool("tick", false, "insert vsrt.Tick() in loop bodies")
var outDir = flag.String("out", "", "output dir")
var repo = flag.String("repo", "/repo", "repo dir")
var modfile = flag.String("modfile", "", "go.mod copy to use (so that the repo's go.mod is never rewritten)")

type inst struct {
	pkg  *packages.Package
	n    int
	site int
	file string
}

func (in *inst) tmp(prefix string) *ast.Ident {
	in.n++
	return ast.NewIdent(fmt.Sprintf("_vs%s%d", prefix, in.n))
}

func call(fn string, args ...ast.Expr) *ast.CallExpr {
	return &ast.CallExpr{Fun: &ast.SelectorExpr{X: ast.NewIdent("vsrt"), Sel: ast.NewIdent(fn)}, Args: args}
}
func stmt(e ast.Expr) ast.Stmt { return &ast.ExprStmt{X: e} }
func kind(k string) ast.Expr   { return &ast.SelectorExpr{X: ast.NewIdent("vsrt"), Sel: ast.NewIdent(k)} }

// recvChans returns channel expressions of receive operations inside n (not descending into func literals), in source order
func recvChans(n ast.Node) []ast.Expr {
	var out []ast.Expr
	if n == nil || isNilNode(n) {
		return nil
	}
	ast.Inspect(n, func(x ast.Node) bool {
		switch u := x.(type) {
		case *ast.FuncLit:
			return false
		case *ast.UnaryExpr:
			if u.Op == token.ARROW {
				out = append(out, u.X)
			}
		}
		return true
	})
	return out
}

// atomicCalls counts the calls of sync/atomic functions and methods inside n (not descending into
// func literals): each gets a scheduling point in front of the statement that contains it, so that
// interleavings around lock-free accesses are explored like those around channel operations.
func (in *inst) atomicCalls(n ast.Node) int {
	cnt := 0
	if n == nil || isNilNode(n) {
		return 0
	}
	ast.Inspect(n, func(x ast.Node) bool {
		switch u := x.(type) {
		case *ast.FuncLit:
			return false
		case *ast.CallExpr:
			var id *ast.Ident
			switch f := u.Fun.(type) {
			case *ast.SelectorExpr:
				id = f.Sel
			case *ast.Ident:
				id = f
			}
			if id != nil {
				if fn, ok := in.pkg.TypesInfo.Uses[id].(*types.Func); ok && fn.Pkg() != nil && fn.Pkg().Path() == "sync/atomic" {
					cnt++
				}
			}
		}
		return true
	})
	return cnt
}

// pres: the scheduling points to hoist in front of a statement for the receives and atomic operations in n
func (in *inst) pres(n ast.Node) []ast.Stmt {
	var pre []ast.Stmt
	for _, c := range recvChans(n) {
		pre = append(pre, stmt(call("Pre", kind("KRecv"), c)))
	}
	for i := in.atomicCalls(n); i > 0; i-- {
		pre = append(pre, stmt(call("Pre", kind("KYield"), &ast.BasicLit{Kind: token.STRING, Value: `"atomic"`})))
	}
	return pre
}

func (in *inst) isMap(e ast.Expr) bool {
	t := in.pkg.TypesInfo.TypeOf(e)
	if t == nil {
		return false
	}
	_, ok := t.Underlying().(*types.Map)
	return ok
}
func (in *inst) isChan(e ast.Expr) bool {
	t := in.pkg.TypesInfo.TypeOf(e)
	if t == nil {
		return false
	}
	_, ok := t.Underlying().(*types.Chan)
	return ok
}

// rewriteList rewrites a statement list, returning the new list
func (in *inst) rewriteList(list []ast.Stmt) []ast.Stmt {
	var out []ast.Stmt
	for _, s := range list {
		out = append(out, in.rewriteStmt(s)...)
	}
	return out
}

func (in *inst) body(b *ast.BlockStmt) {
	if b != nil {
		b.List = in.rewriteList(b.List)
	}
}

func (in *inst) funcLits(n ast.Node) {
	if isNilNode(n) {
		return
	}
	ast.Inspect(n, func(x ast.Node) bool {
		if fl, ok := x.(*ast.FuncLit); ok {
			in.body(fl.Body)
			return false
		}
		return true
	})
}

func (in *inst) rewriteStmt(s ast.Stmt) []ast.Stmt {
	switch st := s.(type) {
	case *ast.BlockStmt:
		in.body(st)
		return []ast.Stmt{st}
	case *ast.LabeledStmt:
		if rs, ok := st.Stmt.(*ast.RangeStmt); ok && (in.isMap(rs.X) || in.isChan(rs.X)) {
			fail(in, st.Pos(), "labeled range over a map or channel is not supported")
		}
		if _, ok := st.Stmt.(*ast.SelectStmt); ok {
			fail(in, st.Pos(), "labeled select is not supported")
		}
		r := in.rewriteStmt(st.Stmt)
		if len(r) == 1 {
			st.Stmt = r[0]
			return []ast.Stmt{st}
		}
		// pre-statements go before the label target
		st.Stmt = r[len(r)-1]
		return append(r[:len(r)-1], st)
	case *ast.IfStmt:
		var pre []ast.Stmt
		if st.Init != nil {
			pre = append(pre, in.pres(st.Init)...)
			in.funcLits(st.Init)
		}
		pre = append(pre, in.pres(st.Cond)...)
		in.funcLits(st.Cond)
		in.body(st.Body)
		if st.Else != nil {
			r := in.rewriteStmt(st.Else)
			if len(r) == 1 {
				st.Else = r[0]
			} else {
				st.Else = &ast.BlockStmt{List: r}
			}
		}
		if len(pre) > 0 {
			return []ast.Stmt{&ast.BlockStmt{List: append(pre, st)}}
		}
		return []ast.Stmt{st}
	case *ast.ForStmt:
		if len(recvChans(st.Cond)) > 0 || (st.Post != nil && len(recvChans(st.Post)) > 0) {
			fail(in, st.Pos(), "receive in for condition/post not supported")
		}
		var pre []ast.Stmt
		if st.Init != nil {
			pre = append(pre, in.pres(st.Init)...)
		}
		in.body(st.Body)
		if k := in.atomicCalls(st.Cond) + in.atomicCalls(st.Post); k > 0 {
			// a loop that polls an atomic: one scheduling point before the loop and one per iteration
			pre = append(pre, stmt(call("Pre", kind("KYield"), &ast.BasicLit{Kind: token.STRING, Value: `"atomic"`})))
			// "spin" = I am waiting (engine/sched.SpinTag): lowest priority, free to switch away from
			st.Body.List = append([]ast.Stmt{stmt(call("Pre", kind("KYield"), &ast.BasicLit{Kind: token.STRING, Value: `"spin"`}))}, st.Body.List...)
		}
		if *tick {
			st.Body.List = append([]ast.Stmt{stmt(call("Tick"))}, st.Body.List...)
		}
		if len(pre) > 0 {
			return []ast.Stmt{&ast.BlockStmt{List: append(pre, st)}}
		}
		return []ast.Stmt{st}
	case *ast.RangeStmt:
		in.funcLits(st.X)
		in.body(st.Body)
		if *tick {
			st.Body.List = append([]ast.Stmt{stmt(call("Tick"))}, st.Body.List...)
		}
		switch {
		case in.isMap(st.X):
			return in.rewriteMapRange(st)
		case in.isChan(st.X):
			return in.rewriteChanRange(st)
		}
		return []ast.Stmt{st}
	case *ast.SwitchStmt:
		var pre []ast.Stmt
		for _, n := range []ast.Node{st.Init, st.Tag} {
			if n != nil && !isNilNode(n) {
				pre = append(pre, in.pres(n)...)
				in.funcLits(n)
			}
		}
		for _, cc := range st.Body.List {
			c := cc.(*ast.CaseClause)
			c.Body = in.rewriteList(c.Body)
		}
		if len(pre) > 0 {
			return []ast.Stmt{&ast.BlockStmt{List: append(pre, st)}}
		}
		return []ast.Stmt{st}
	case *ast.TypeSwitchStmt:
		for _, cc := range st.Body.List {
			c := cc.(*ast.CaseClause)
			c.Body = in.rewriteList(c.Body)
		}
		return []ast.Stmt{st}
	case *ast.SelectStmt:
		return in.rewriteSelect(st)
	case *ast.SendStmt:
		in.funcLits(st.Value)
		pre := []ast.Stmt{}
		pre = append(pre, in.pres(st.Value)...)
		pre = append(pre, stmt(call("Pre", kind("KSend"), st.Chan)))
		return append(pre, st)
	case *ast.GoStmt:
		return in.rewriteGo(st)
	case *ast.DeferStmt:
		in.funcLits(st.Call)
		// defer close(ch): the close is an operation the scheduler has to see (the channel is evaluated now, as the language does)
		if id, ok := st.Call.Fun.(*ast.Ident); ok && id.Name == "close" && len(st.Call.Args) == 1 {
			if _, isBuiltin := in.pkg.TypesInfo.Uses[id].(*types.Builtin); isBuiltin {
				c := in.tmp("c")
				lit := &ast.FuncLit{Type: &ast.FuncType{Params: &ast.FieldList{}}, Body: &ast.BlockStmt{List: []ast.Stmt{
					stmt(call("Pre", kind("KClose"), c)),
					stmt(&ast.CallExpr{Fun: ast.NewIdent("close"), Args: []ast.Expr{c}}),
				}}}
				return []ast.Stmt{
					&ast.AssignStmt{Lhs: []ast.Expr{c}, Tok: token.DEFINE, Rhs: []ast.Expr{st.Call.Args[0]}},
					&ast.DeferStmt{Call: &ast.CallExpr{Fun: lit}},
				}
			}
		}
		return []ast.Stmt{st}
	case *ast.ExprStmt:
		if c, ok := st.X.(*ast.CallExpr); ok {
			if id, ok := c.Fun.(*ast.Ident); ok && id.Name == "close" && len(c.Args) == 1 {
				if _, isBuiltin := in.pkg.TypesInfo.Uses[id].(*types.Builtin); isBuiltin {
					return []ast.Stmt{stmt(call("Pre", kind("KClose"), c.Args[0])), st}
				}
			}
		}
	}
	// generic statement: hoist Pre for receives, instrument nested func literals
	var pre []ast.Stmt
	pre = append(pre, in.pres(s)...)
	in.funcLits(s)
	if len(recvChans(s)) > 0 {
		switch s.(type) {
		case *ast.ExprStmt, *ast.AssignStmt, *ast.DeclStmt:
			// the receiving side of a rendezvous parks again before it goes on (vsrt.Post)
			return append(append(pre, s), stmt(call("Post")))
		}
	}
	return append(pre, s)
}

func isNilNode(n ast.Node) bool {
	if n == nil {
		return true
	}
	v := reflect.ValueOf(n)
	return (v.Kind() == reflect.Ptr || v.Kind() == reflect.Interface) && v.IsNil()
}

// perLoopVars: the module's go directive is below 1.22, so the variables of a `for k, v := range` statement are
// declared once per loop, not once per iteration (a closure created in the body sees later iterations' values);
// the rewritten loops keep that
var perLoopVars bool

func goDirectiveBelow122(modfile string) bool {
	b, err := os.ReadFile(modfile)
	if err != nil {
		fmt.Fprintln(os.Stderr, "instrument: cannot read", modfile, err)
		os.Exit(2)
	}
	for _, l := range strings.Split(string(b), "\n") {
		f := strings.Fields(l)
		if len(f) == 2 && f[0] == "go" {
			var major, minor int
			fmt.Sscanf(f[1], "%d.%d", &major, &minor)
			return major == 1 && minor < 22
		}
	}
	return true // no go directive: language version 1.16
}

func (in *inst) rewriteMapRange(st *ast.RangeStmt) []ast.Stmt {
	in.site++
	m := in.tmp("m")
	k := in.tmp("k")
	site := &ast.BasicLit{Kind: token.STRING, Value: fmt.Sprintf("%q", fmt.Sprintf("%s#%d", in.file, in.site))}
	var prologue []ast.Stmt
	tok := st.Tok
	if tok == token.ILLEGAL {
		tok = token.DEFINE
	}
	blank := func(e ast.Expr) bool {
		id, ok := e.(*ast.Ident)
		return e == nil || (ok && id.Name == "_")
	}
	// presence check (deleted keys are skipped)
	v := in.tmp("v")
	ok := in.tmp("ok")
	prologue = append(prologue,
		&ast.AssignStmt{Lhs: []ast.Expr{v, ok}, Tok: token.DEFINE, Rhs: []ast.Expr{&ast.IndexExpr{X: m, Index: k}}},
		&ast.IfStmt{Cond: &ast.UnaryExpr{Op: token.NOT, X: ok}, Body: &ast.BlockStmt{List: []ast.Stmt{&ast.BranchStmt{Tok: token.CONTINUE}}}},
		&ast.AssignStmt{Lhs: []ast.Expr{ast.NewIdent("_")}, Tok: token.ASSIGN, Rhs: []ast.Expr{v}},
	)
	var decl []ast.Stmt
	if tok == token.DEFINE && perLoopVars && (!blank(st.Key) || !blank(st.Value)) {
		// one variable per loop: declared in front of it (zero values of the map's key and element type)
		lhs := []ast.Expr{ast.NewIdent("_"), ast.NewIdent("_")}
		if !blank(st.Key) {
			lhs[0] = st.Key
			decl = append(decl, &ast.AssignStmt{Lhs: []ast.Expr{ast.NewIdent("_")}, Tok: token.ASSIGN, Rhs: []ast.Expr{st.Key}})
		}
		if !blank(st.Value) {
			lhs[1] = st.Value
			decl = append(decl, &ast.AssignStmt{Lhs: []ast.Expr{ast.NewIdent("_")}, Tok: token.ASSIGN, Rhs: []ast.Expr{st.Value}})
		}
		decl = append([]ast.Stmt{&ast.AssignStmt{Lhs: lhs, Tok: token.DEFINE, Rhs: []ast.Expr{call("ZeroKV", m)}}}, decl...)
		tok = token.ASSIGN
	}
	if !blank(st.Key) {
		prologue = append(prologue, &ast.AssignStmt{Lhs: []ast.Expr{st.Key}, Tok: tok, Rhs: []ast.Expr{k}})
		if tok == token.DEFINE {
			prologue = append(prologue, &ast.AssignStmt{Lhs: []ast.Expr{ast.NewIdent("_")}, Tok: token.ASSIGN, Rhs: []ast.Expr{st.Key}})
		}
	}
	if !blank(st.Value) {
		prologue = append(prologue, &ast.AssignStmt{Lhs: []ast.Expr{st.Value}, Tok: tok, Rhs: []ast.Expr{v}})
		if tok == token.DEFINE {
			prologue = append(prologue, &ast.AssignStmt{Lhs: []ast.Expr{ast.NewIdent("_")}, Tok: token.ASSIGN, Rhs: []ast.Expr{st.Value}})
		}
	}
	loop := &ast.RangeStmt{Key: ast.NewIdent("_"), Value: k, Tok: token.DEFINE, X: call("Order", site, m),
		Body: &ast.BlockStmt{List: append(prologue, st.Body.List...)}}
	return []ast.Stmt{&ast.BlockStmt{List: append(append([]ast.Stmt{
		&ast.AssignStmt{Lhs: []ast.Expr{m}, Tok: token.DEFINE, Rhs: []ast.Expr{st.X}}}, decl...),
		loop,
	)}}
}

func (in *inst) rewriteChanRange(st *ast.RangeStmt) []ast.Stmt {
	c := in.tmp("c")
	v := in.tmp("v")
	ok := in.tmp("ok")
	list := []ast.Stmt{
		stmt(call("Pre", kind("KRecv"), c)),
		&ast.AssignStmt{Lhs: []ast.Expr{v, ok}, Tok: token.DEFINE, Rhs: []ast.Expr{&ast.UnaryExpr{Op: token.ARROW, X: c}}},
		stmt(call("Post")),
		&ast.IfStmt{Cond: &ast.UnaryExpr{Op: token.NOT, X: ok}, Body: &ast.BlockStmt{List: []ast.Stmt{&ast.BranchStmt{Tok: token.BREAK}}}},
		&ast.AssignStmt{Lhs: []ast.Expr{ast.NewIdent("_")}, Tok: token.ASSIGN, Rhs: []ast.Expr{v}},
	}
	var decl []ast.Stmt
	if st.Key != nil {
		if id, isID := st.Key.(*ast.Ident); !isID || id.Name != "_" {
			tok := st.Tok
			if tok == token.DEFINE && perLoopVars {
				// one variable per loop: declared in front of it (zero value of the channel's element type)
				decl = append(decl, &ast.AssignStmt{Lhs: []ast.Expr{st.Key}, Tok: token.DEFINE, Rhs: []ast.Expr{call("ZeroElem", c)}},
					&ast.AssignStmt{Lhs: []ast.Expr{ast.NewIdent("_")}, Tok: token.ASSIGN, Rhs: []ast.Expr{st.Key}})
				tok = token.ASSIGN
			}
			list = append(list, &ast.AssignStmt{Lhs: []ast.Expr{st.Key}, Tok: tok, Rhs: []ast.Expr{v}})
		}
	}
	return []ast.Stmt{&ast.BlockStmt{List: append(append([]ast.Stmt{
		&ast.AssignStmt{Lhs: []ast.Expr{c}, Tok: token.DEFINE, Rhs: []ast.Expr{st.X}}}, decl...),
		&ast.ForStmt{Body: &ast.BlockStmt{List: append(list, st.Body.List...)}},
	)}}
}

// rewriteSelect: channel and value expressions are evaluated first (as the language does), the
// scheduler picks the case (or default), the chosen communication is then executed as a plain
// operation.  With no hooks installed vsrt.Select returns -2 and the original select runs.
func (in *inst) rewriteSelect(st *ast.SelectStmt) []ast.Stmt {
	var pre []ast.Stmt
	var descr []ast.Expr
	hasDefault := false
	sw := &ast.SwitchStmt{Body: &ast.BlockStmt{}}
	orig := &ast.SelectStmt{Body: &ast.BlockStmt{}}
	idx := 0
	for _, cc := range st.Body.List {
		c := cc.(*ast.CommClause)
		body := in.rewriteList(c.Body)
		if c.Comm == nil {
			hasDefault = true
			sw.Body.List = append(sw.Body.List, &ast.CaseClause{List: []ast.Expr{&ast.BasicLit{Kind: token.INT, Value: "-1"}}, Body: body})
			orig.Body.List = append(orig.Body.List, &ast.CommClause{Body: body})
			continue
		}
		var comm ast.Stmt
		switch cm := c.Comm.(type) {
		case *ast.SendStmt:
			ch, v := in.tmp("c"), in.tmp("v")
			pre = append(pre, &ast.AssignStmt{Lhs: []ast.Expr{ch}, Tok: token.DEFINE, Rhs: []ast.Expr{cm.Chan}}, &ast.AssignStmt{Lhs: []ast.Expr{v}, Tok: token.DEFINE, Rhs: []ast.Expr{cm.Value}})
			comm = &ast.SendStmt{Chan: ch, Value: v}
			descr = append(descr, &ast.CompositeLit{Type: &ast.SelectorExpr{X: ast.NewIdent("vsrt"), Sel: ast.NewIdent("SelCase")}, Elts: []ast.Expr{&ast.KeyValueExpr{Key: ast.NewIdent("Send"), Value: ast.NewIdent("true")}, &ast.KeyValueExpr{Key: ast.NewIdent("Ch"), Value: ch}}})
		case *ast.ExprStmt: // <-ch
			u, ok := cm.X.(*ast.UnaryExpr)
			if !ok || u.Op != token.ARROW {
				fail(in, c.Pos(), "unsupported select case")
			}
			ch := in.tmp("c")
			pre = append(pre, &ast.AssignStmt{Lhs: []ast.Expr{ch}, Tok: token.DEFINE, Rhs: []ast.Expr{u.X}})
			comm = &ast.ExprStmt{X: &ast.UnaryExpr{Op: token.ARROW, X: ch}}
			descr = append(descr, &ast.CompositeLit{Type: &ast.SelectorExpr{X: ast.NewIdent("vsrt"), Sel: ast.NewIdent("SelCase")}, Elts: []ast.Expr{&ast.KeyValueExpr{Key: ast.NewIdent("Ch"), Value: ch}}})
		case *ast.AssignStmt: // x := <-ch ; x, ok = <-ch
			if len(cm.Rhs) != 1 {
				fail(in, c.Pos(), "unsupported select case")
			}
			u, ok := cm.Rhs[0].(*ast.UnaryExpr)
			if !ok || u.Op != token.ARROW {
				fail(in, c.Pos(), "unsupported select case")
			}
			ch := in.tmp("c")
			pre = append(pre, &ast.AssignStmt{Lhs: []ast.Expr{ch}, Tok: token.DEFINE, Rhs: []ast.Expr{u.X}})
			comm = &ast.AssignStmt{Lhs: cm.Lhs, Tok: cm.Tok, Rhs: []ast.Expr{&ast.UnaryExpr{Op: token.ARROW, X: ch}}}
			descr = append(descr, &ast.CompositeLit{Type: &ast.SelectorExpr{X: ast.NewIdent("vsrt"), Sel: ast.NewIdent("SelCase")}, Elts: []ast.Expr{&ast.KeyValueExpr{Key: ast.NewIdent("Ch"), Value: ch}}})
		default:
			fail(in, c.Pos(), "unsupported select case")
		}
		swBody := []ast.Stmt{comm}
		if _, isSend := comm.(*ast.SendStmt); !isSend {
			swBody = append(swBody, stmt(call("Post")))
		}
		sw.Body.List = append(sw.Body.List, &ast.CaseClause{List: []ast.Expr{&ast.BasicLit{Kind: token.INT, Value: fmt.Sprint(idx)}}, Body: append(swBody, body...)})
		orig.Body.List = append(orig.Body.List, &ast.CommClause{Comm: comm, Body: body})
		idx++
	}
	// pass-through: the original statement (on the evaluated temporaries)
	sw.Body.List = append(sw.Body.List, &ast.CaseClause{List: []ast.Expr{&ast.BasicLit{Kind: token.INT, Value: "-2"}}, Body: []ast.Stmt{orig}})
	hd := "false"
	if hasDefault {
		hd = "true"
	}
	sw.Tag = call("Select", append([]ast.Expr{ast.NewIdent(hd)}, descr...)...)
	return []ast.Stmt{&ast.BlockStmt{List: append(pre, sw)}}
}

func (in *inst) rewriteGo(st *ast.GoStmt) []ast.Stmt {
	c := st.Call
	var pre []ast.Stmt
	var fn ast.Expr
	if fl, ok := c.Fun.(*ast.FuncLit); ok {
		in.body(fl.Body)
		fn = &ast.ParenExpr{X: fl}
	} else {
		f := in.tmp("f")
		pre = append(pre, &ast.AssignStmt{Lhs: []ast.Expr{f}, Tok: token.DEFINE, Rhs: []ast.Expr{c.Fun}})
		fn = f
	}
	var args []ast.Expr
	for _, a := range c.Args {
		in.funcLits(a)
		t := in.tmp("a")
		// keep the static type of the argument (interfaces!) via typed var when possible
		pre = append(pre, &ast.AssignStmt{Lhs: []ast.Expr{t}, Tok: token.DEFINE, Rhs: []ast.Expr{a}})
		args = append(args, t)
	}
	name := &ast.BasicLit{Kind: token.STRING, Value: fmt.Sprintf("%q", exprString(c.Fun))}
	goCall := call("Go", name, &ast.FuncLit{Type: &ast.FuncType{Params: &ast.FieldList{}}, Body: &ast.BlockStmt{List: []ast.Stmt{stmt(&ast.CallExpr{Fun: fn, Args: args, Ellipsis: c.Ellipsis})}}})
	return []ast.Stmt{&ast.BlockStmt{List: append(pre, stmt(goCall))}}
}

// timeImportName: the name under which the file imports package time
func timeImportName(f *ast.File) string {
	for _, imp := range f.Imports {
		if imp.Path.Value == `"time"` && imp.Name != nil {
			return imp.Name.Name
		}
	}
	return "time"
}

func exprString(e ast.Expr) string {
	switch v := e.(type) {
	case *ast.Ident:
		return v.Name
	case *ast.SelectorExpr:
		return exprString(v.X) + "." + v.Sel.Name
	case *ast.FuncLit:
		return "func"
	}
	return "expr"
}

func fail(in *inst, pos token.Pos, msg string) {
	fmt.Fprintf(os.Stderr, "instrument: %s: %s\n", in.pkg.Fset.Position(pos), msg)
	os.Exit(2)
}

func main() {
	flag.Parse()
	cfg := &packages.Config{Mode: packages.NeedName | packages.NeedFiles | packages.NeedCompiledGoFiles | packages.NeedSyntax | packages.NeedTypes | packages.NeedTypesInfo | packages.NeedImports | packages.NeedDeps, Dir: *repo}
	if *modfile != "" {
		cfg.BuildFlags = []string{"-modfile=" + *modfile}
	}
	if *modfile != "" {
		perLoopVars = goDirectiveBelow122(*modfile)
	} else {
		perLoopVars = goDirectiveBelow122(filepath.Join(*repo, "go.mod"))
	}
	pkgs, err := packages.Load(cfg, flag.Args()...)
	if err != nil {
		panic(err)
	}
	overlay := map[string]string{}
	for _, p := range pkgs {
		if len(p.Errors) > 0 {
			fmt.Fprintln(os.Stderr, p.Errors)
			os.Exit(2)
		}
		for i, f := range p.Syntax {
			in := &inst{pkg: p, file: filepath.Base(p.CompiledGoFiles[i])}
			// maps.Keys / maps.Values -> vsrt.Perm(site, ...)
			astutil.Apply(f, nil, func(c *astutil.Cursor) bool {
				if ce, ok := c.Node().(*ast.CallExpr); ok {
					if sel, ok := ce.Fun.(*ast.SelectorExpr); ok {
						if id, ok := sel.X.(*ast.Ident); ok {
							if pn, ok := p.TypesInfo.Uses[id].(*types.PkgName); ok && strings.HasSuffix(pn.Imported().Path(), "/maps") || ok && pn != nil && pn.Imported().Path() == "maps" {
								if sel.Sel.Name == "Keys" || sel.Sel.Name == "Values" {
									in.site++
									site := &ast.BasicLit{Kind: token.STRING, Value: fmt.Sprintf("%q", fmt.Sprintf("%s#k%d", in.file, in.site))}
									c.Replace(call("Perm", site, ce))
								}
							}
						}
					}
				}
				return true
			})
			// time behind a seam: timers, tickers and sleeps of the instrumented package become the explorer's
			timeUsed, timeRewritten := false, false
			astutil.Apply(f, nil, func(c *astutil.Cursor) bool {
				sel, ok := c.Node().(*ast.SelectorExpr)
				if !ok {
					return true
				}
				id, ok := sel.X.(*ast.Ident)
				if !ok {
					return true
				}
				pn, ok := p.TypesInfo.Uses[id].(*types.PkgName)
				if !ok || pn.Imported().Path() != "time" {
					return true
				}
				switch sel.Sel.Name {
				case "NewTicker", "NewTimer", "After", "Tick", "Sleep", "Ticker", "Timer":
					name := sel.Sel.Name
					if name == "Tick" {
						name = "TickChan"
					}
					c.Replace(&ast.SelectorExpr{X: ast.NewIdent("vsrt"), Sel: ast.NewIdent(name)})
					timeRewritten = true
				case "AfterFunc":
					fail(in, sel.Pos(), "time.AfterFunc starts a goroutine the scheduler cannot own: not supported")
				default:
					timeUsed = true
				}
				return true
			})
			if timeRewritten && !timeUsed {
				// nothing else of package time is used any more: keep the import used
				f.Decls = append(f.Decls, &ast.GenDecl{Tok: token.VAR, Specs: []ast.Spec{&ast.ValueSpec{Names: []*ast.Ident{ast.NewIdent("_")}, Values: []ast.Expr{&ast.SelectorExpr{X: ast.NewIdent(timeImportName(f)), Sel: ast.NewIdent("Now")}}}}})
			}
			for _, d := range f.Decls {
				if fd, ok := d.(*ast.FuncDecl); ok && fd.Body != nil {
					in.body(fd.Body)
				}
			}
			// imports
			astutil.AddNamedImport(p.Fset, f, "vsrt", rtPath)
			for _, imp := range f.Imports {
				if imp.Path.Value == `"sync"` {
					imp.Path.Value = fmt.Sprintf("%q", syncShim)
					if imp.Name == nil {
						imp.Name = ast.NewIdent("sync")
					}
				}
			}
			// keep vsrt import used
			f.Decls = append(f.Decls, &ast.GenDecl{Tok: token.VAR, Specs: []ast.Spec{&ast.ValueSpec{Names: []*ast.Ident{ast.NewIdent("_")}, Values: []ast.Expr{kind("KYield")}}}})
			var buf bytes.Buffer
			if err := format.Node(&buf, p.Fset, f); err != nil {
				panic(err)
			}
			dst := filepath.Join(*outDir, strings.ReplaceAll(p.PkgPath, "/", "_")+"__"+in.file)
			os.WriteFile(dst, buf.Bytes(), 0o644)
			overlay[p.CompiledGoFiles[i]] = dst
		}
	}
	for k, v := range overlay {
		fmt.Printf("%s\t%s\n", k, v)
	}
}
